(* C11: what a walk records for a composite type whose entry is still undecided does not depend on
   the universe it happens in (hence not on what was loaded before, in which order or grouping). *)
Require Import Gengo.Base.Str Gengo.Base.Sexp Gengo.Base.StrOrder Gengo.Model.Universe
               Gengo.Proofs.UniverseProofs Gengo.Proofs.CanonProofs Gengo.Proofs.FaithfulProofs.

Section Indep.
Variable v2 : bool.
Variable p : prog.
Hypothesis Hok : named_ok v2 p.

Definition fresh_for (u : univ) (use : option name) (tstr : str) : Prop :=
  let nm := match use with Some n => n | None => name_of_string v2 tstr end in
  complete (fst (get_or_create v2 u nm)) (snd (get_or_create v2 u nm)) = false.

(* every child occurrence has a key (it is no type parameter and its node exists) *)
Definition keyed (use : option name) (t : N) : Prop :=
  (exists k, node_key v2 p use t = Some k) \/ (exists ts, plookup t p = Some (ts, STypeParam)).

Lemma child_is_unique use t n1 n2 : keyed use t -> child_is v2 p use t n1 -> child_is v2 p use t n2 -> n1 = n2.
Proof.
  intros [[k Hk]|[ts Hs]] [H1 T1] [H2 T2]; [rewrite (H1 _ Hk), (H2 _ Hk)|rewrite (T1 _ Hs), (T2 _ Hs)]; reflexivity.
Qed.

(* pointer, slice, channel: same kind, same element object *)
Theorem elem_independent f1 f2 u1 u2 use t tstr c sh k u1' u2' o1 o2 :
  wf u1 -> canonical v2 u1 -> wf u2 -> canonical v2 u2 -> plookup t p = Some (tstr, sh) ->
  (sh = SPtr c /\ k = "Pointer" \/ sh = SSlice c /\ k = "Slice" \/ sh = SChan c /\ k = "Chan")%string ->
  keyed None c -> fresh_for u1 use tstr -> fresh_for u2 use tstr ->
  walk v2 p (S f1) u1 use t = Some (u1', o1) -> walk v2 p (S f2) u2 use t = Some (u2', o2) ->
  exists e1 e2, nlookup o1 (objs u1') = Some e1 /\ nlookup o2 (objs u2') = Some e2 /\
                e_kind e1 = e_kind e2 /\ e_elem e1 = e_elem e2.
Proof.
  intros W1 C1 W2 C2 Ep Hsh Hkey F1 F2 H1 H2.
  destruct (elem_faithful v2 p Hok f1 u1 use t tstr c sh k u1' o1 W1 C1 Ep Hsh H1 F1) as (e1 & L1 & K1 & n1 & E1 & Ch1).
  destruct (elem_faithful v2 p Hok f2 u2 use t tstr c sh k u2' o2 W2 C2 Ep Hsh H2 F2) as (e2 & L2 & K2 & n2 & E2 & Ch2).
  exists e1, e2. split; [exact L1|]. split; [exact L2|]. split; [congruence|]. rewrite E1, E2. f_equal. exact (child_is_unique None c _ _ Hkey Ch1 Ch2).
Qed.

(* map: key and element objects *)
Theorem map_independent f1 f2 u1 u2 use t tstr kt c u1' u2' o1 o2 :
  wf u1 -> canonical v2 u1 -> wf u2 -> canonical v2 u2 -> plookup t p = Some (tstr, SMap kt c) ->
  keyed None kt -> keyed None c -> fresh_for u1 use tstr -> fresh_for u2 use tstr ->
  walk v2 p (S f1) u1 use t = Some (u1', o1) -> walk v2 p (S f2) u2 use t = Some (u2', o2) ->
  exists e1 e2, nlookup o1 (objs u1') = Some e1 /\ nlookup o2 (objs u2') = Some e2 /\
                e_kind e1 = e_kind e2 /\ e_key e1 = e_key e2 /\ e_elem e1 = e_elem e2.
Proof.
  intros W1 C1 W2 C2 Ep Hk Hc F1 F2 H1 H2.
  destruct (map_faithful v2 p Hok f1 u1 use t tstr kt c u1' o1 W1 C1 Ep H1 F1) as (e1 & L1 & K1 & (nk1 & Ek1 & Ck1) & (ne1 & Ee1 & Ce1)).
  destruct (map_faithful v2 p Hok f2 u2 use t tstr kt c u2' o2 W2 C2 Ep H2 F2) as (e2 & L2 & K2 & (nk2 & Ek2 & Ck2) & (ne2 & Ee2 & Ce2)).
  exists e1, e2. split; [exact L1|]. split; [exact L2|]. split; [congruence|]. split.
  - rewrite Ek1, Ek2. f_equal. exact (child_is_unique None kt _ _ Hk Ck1 Ck2).
  - rewrite Ee1, Ee2. f_equal. exact (child_is_unique None c _ _ Hc Ce1 Ce2).
Qed.

(* struct: the whole member list *)
Lemma members_unique : forall (fs : list (str * bool * str * N)) l1 l2,
  Forall (fun fd => keyed None (snd fd)) fs ->
  Forall2 (fun (fd : str * bool * str * N) (m : str * bool * str * name) => fst m = fst fd /\ child_is v2 p None (snd fd) (snd m)) fs l1 ->
  Forall2 (fun (fd : str * bool * str * N) (m : str * bool * str * name) => fst m = fst fd /\ child_is v2 p None (snd fd) (snd m)) fs l2 ->
  l1 = l2.
Proof.
  induction fs as [|fd fs IH]; intros l1 l2 Hk A B; inversion A; inversion B; subst; [reflexivity|].
  inversion Hk; subst. f_equal; [|eapply IH; eauto].
  match goal with Ha : fst ?y = fst fd /\ _, Hb : fst ?y0 = fst fd /\ _ |- ?y = ?y0 =>
    destruct Ha as [Ha1 Ha2], Hb as [Hb1 Hb2]; destruct y as [ya yb], y0 as [y0a y0b]; simpl in *; subst;
    f_equal; eapply child_is_unique; eauto end.
Qed.
Theorem struct_independent f1 f2 u1 u2 use t tstr fs u1' u2' o1 o2 :
  wf u1 -> canonical v2 u1 -> wf u2 -> canonical v2 u2 -> plookup t p = Some (tstr, SStruct fs) ->
  Forall (fun fd => keyed None (snd fd)) fs -> fresh_for u1 use tstr -> fresh_for u2 use tstr ->
  walk v2 p (S f1) u1 use t = Some (u1', o1) -> walk v2 p (S f2) u2 use t = Some (u2', o2) ->
  exists e1 e2, nlookup o1 (objs u1') = Some e1 /\ nlookup o2 (objs u2') = Some e2 /\
                e_kind e1 = e_kind e2 /\ e_members e1 = e_members e2.
Proof.
  intros W1 C1 W2 C2 Ep Hk F1 F2 H1 H2.
  destruct (struct_faithful v2 p Hok f1 u1 use t tstr fs u1' o1 W1 C1 Ep H1 F1) as (e1 & L1 & K1 & M1).
  destruct (struct_faithful v2 p Hok f2 u2 use t tstr fs u2' o2 W2 C2 Ep H2 F2) as (e2 & L2 & K2 & M2).
  exists e1, e2. split; [exact L1|]. split; [exact L2|]. split; [congruence|]. eapply members_unique; eauto.
Qed.

(* array: length and element object *)
Theorem array_independent f1 f2 u1 u2 use t tstr len c u1' u2' o1 o2 :
  wf u1 -> canonical v2 u1 -> wf u2 -> canonical v2 u2 -> plookup t p = Some (tstr, SArray len c) ->
  keyed None c -> fresh_for u1 use tstr -> fresh_for u2 use tstr ->
  walk v2 p (S f1) u1 use t = Some (u1', o1) -> walk v2 p (S f2) u2 use t = Some (u2', o2) ->
  exists e1 e2, nlookup o1 (objs u1') = Some e1 /\ nlookup o2 (objs u2') = Some e2 /\
                e_kind e1 = e_kind e2 /\ e_len e1 = e_len e2 /\ e_elem e1 = e_elem e2.
Proof.
  intros W1 C1 W2 C2 Ep Hc F1 F2 H1 H2.
  destruct (array_faithful v2 p Hok f1 u1 use t tstr len c u1' o1 W1 C1 Ep H1 F1) as (e1 & L1 & K1 & Ln1 & n1 & E1 & Ch1).
  destruct (array_faithful v2 p Hok f2 u2 use t tstr len c u2' o2 W2 C2 Ep H2 F2) as (e2 & L2 & K2 & Ln2 & n2 & E2 & Ch2).
  exists e1, e2. split; [exact L1|]. split; [exact L2|]. split; [congruence|]. split; [congruence|]. rewrite E1, E2. f_equal. exact (child_is_unique None c _ _ Hc Ch1 Ch2).
Qed.
(* func: the whole signature (parameter and result names and objects, variadic flag, receiver) *)
Lemma tuple_unique : forall (ps : list (str * N)) l1 l2,
  Forall (fun a => keyed None (snd a)) ps ->
  Forall2 (fun (a : str * N) (b : str * name) => fst b = fst a /\ child_is v2 p None (snd a) (snd b)) ps l1 ->
  Forall2 (fun (a : str * N) (b : str * name) => fst b = fst a /\ child_is v2 p None (snd a) (snd b)) ps l2 ->
  l1 = l2.
Proof.
  induction ps as [|a ps IH]; intros l1 l2 Hk A B; inversion A; inversion B; subst; [reflexivity|].
  inversion Hk; subst. f_equal; [|eapply IH; eauto].
  match goal with Ha : fst ?y = fst a /\ _, Hb : fst ?y0 = fst a /\ _ |- ?y = ?y0 =>
    destruct Ha as [Ha1 Ha2], Hb as [Hb1 Hb2]; destruct y as [ya yb], y0 as [y0a y0b]; simpl in *; subst;
    f_equal; eapply child_is_unique; eauto end.
Qed.
Theorem func_independent f1 f2 u1 u2 use t tstr ps rs vr recv u1' u2' o1 o2 :
  wf u1 -> canonical v2 u1 -> wf u2 -> canonical v2 u2 -> plookup t p = Some (tstr, SFunc ps rs vr recv) ->
  Forall (fun a => keyed None (snd a)) ps -> Forall (fun a => keyed None (snd a)) rs ->
  (forall r, recv = Some r -> keyed None r) ->
  fresh_for u1 use tstr -> fresh_for u2 use tstr ->
  walk v2 p (S f1) u1 use t = Some (u1', o1) -> walk v2 p (S f2) u2 use t = Some (u2', o2) ->
  exists e1 e2, nlookup o1 (objs u1') = Some e1 /\ nlookup o2 (objs u2') = Some e2 /\
                e_kind e1 = e_kind e2 /\ e_sig e1 = e_sig e2.
Proof.
  intros W1 C1 W2 C2 Ep Hps Hrs Hrc F1 F2 H1 H2.
  destruct (func_faithful v2 p Hok f1 u1 use t tstr ps rs vr recv u1' o1 W1 C1 Ep H1 F1) as (e1 & g1 & L1 & K1 & S1 & V1 & P1 & R1 & Rc1).
  destruct (func_faithful v2 p Hok f2 u2 use t tstr ps rs vr recv u2' o2 W2 C2 Ep H2 F2) as (e2 & g2 & L2 & K2 & S2 & V2 & P2 & R2 & Rc2).
  exists e1, e2. split; [exact L1|]. split; [exact L2|]. split; [congruence|]. rewrite S1, S2. f_equal.
  destruct g1 as [pa1 ra1 va1 rc1], g2 as [pa2 ra2 va2 rc2]; simpl in *. subst va1 va2.
  rewrite (tuple_unique ps pa1 pa2 Hps P1 P2), (tuple_unique rs ra1 ra2 Hrs R1 R2). f_equal.
  destruct recv as [r|], rc1 as [n1|], rc2 as [n2|]; try contradiction; [|reflexivity].
  f_equal. exact (child_is_unique None r _ _ (Hrc r eq_refl) Rc1 Rc2).
Qed.

(* interface: the whole method list (names and the objects of the method signatures) *)
Lemma methods_unique : forall (ms : list (str * str * N)) l1 l2,
  Forall (fun m => keyed (Some (name_of_string v2 (snd (fst m)))) (snd m)) ms ->
  Forall2 (fun (m : str * str * N) (x : str * name) => fst x = fst (fst m) /\ child_is v2 p (Some (name_of_string v2 (snd (fst m)))) (snd m) (snd x)) ms l1 ->
  Forall2 (fun (m : str * str * N) (x : str * name) => fst x = fst (fst m) /\ child_is v2 p (Some (name_of_string v2 (snd (fst m)))) (snd m) (snd x)) ms l2 ->
  l1 = l2.
Proof.
  induction ms as [|m ms IH]; intros l1 l2 Hk A B; inversion A; inversion B; subst; [reflexivity|].
  inversion Hk; subst. f_equal; [|eapply IH; eauto].
  match goal with Ha : fst ?y = fst (fst m) /\ _, Hb : fst ?y0 = fst (fst m) /\ _ |- ?y = ?y0 =>
    destruct Ha as [Ha1 Ha2], Hb as [Hb1 Hb2]; destruct y as [ya yb], y0 as [y0a y0b]; simpl in *; subst;
    f_equal; eapply child_is_unique; eauto end.
Qed.
Theorem iface_independent f1 f2 u1 u2 use t tstr ms u1' u2' o1 o2 :
  wf u1 -> canonical v2 u1 -> wf u2 -> canonical v2 u2 -> plookup t p = Some (tstr, SIface ms) ->
  Forall (fun m => keyed (Some (name_of_string v2 (snd (fst m)))) (snd m)) ms ->
  fresh_for u1 use tstr -> fresh_for u2 use tstr ->
  walk v2 p (S f1) u1 use t = Some (u1', o1) -> walk v2 p (S f2) u2 use t = Some (u2', o2) ->
  exists e1 e2, nlookup o1 (objs u1') = Some e1 /\ nlookup o2 (objs u2') = Some e2 /\
                e_kind e1 = e_kind e2 /\ e_methods e1 = e_methods e2.
Proof.
  intros W1 C1 W2 C2 Ep Hk F1 F2 H1 H2.
  destruct (iface_faithful v2 p Hok f1 u1 use t tstr ms u1' o1 W1 C1 Ep H1 F1) as (e1 & L1 & K1 & M1).
  destruct (iface_faithful v2 p Hok f2 u2 use t tstr ms u2' o2 W2 C2 Ep H2 F2) as (e2 & L2 & K2 & M2).
  exists e1, e2. split; [exact L1|]. split; [exact L2|]. split; [congruence|]. eapply methods_unique; eauto.
Qed.
End Indep.
