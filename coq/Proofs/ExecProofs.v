Require Import Gengo.Base.Str Gengo.Base.Sexp Gengo.Base.StrOrder Gengo.Model.Exec.

(* ================= C13: ErrorTracker over an arbitrary writer ================= *)
Section TrackerProofs.
Variable W E : Type.
Variable wwrite : W -> str -> W * (nat * option E).

(* once an error is recorded, every later write returns (0, that error) and the underlying
   writer is not touched *)
Theorem sticky_after_error (t : et W E) e ps : eterr t = Some e ->
  et_writes wwrite t ps = (t, map (fun _ => (0, Some e)) ps).
Proof.
  intros He. induction ps as [|p ps IH]; simpl; auto.
  unfold et_write. rewrite He. rewrite IH. reflexivity.
Qed.

(* a write on an error-free tracker is the underlying write, and its error (if any) is recorded *)
Theorem write_passthrough (t : et W E) p : eterr t = None ->
  et_write wwrite t p =
  ({| under := fst (wwrite (under t) p); eterr := snd (snd (wwrite (under t) p)) |}, snd (wwrite (under t) p)).
Proof. intros He. unfold et_write. rewrite He. destruct (wwrite (under t) p) as [w' [n r]]. reflexivity. Qed.

(* the first failing write decides everything after it *)
Theorem first_error_sticky (t : et W E) a p b w' n e :
  eterr t = None ->
  (forall t1 rs1, et_writes wwrite t a = (t1, rs1) -> eterr t1 = None) ->
  wwrite (under (fst (et_writes wwrite t a))) p = (w', (n, Some e)) ->
  let '(tf, rs) := et_writes wwrite t (a ++ p :: b) in
  under tf = w' /\ et_error tf = Some e /\
  skipn (length a) rs = (n, Some e) :: map (fun _ => (0, Some e)) b.
Proof.
  intros He Ha Hp.
  assert (Happ : forall l1 l2 t0, et_writes wwrite t0 (l1 ++ l2) =
            let '(t1, r1) := et_writes wwrite t0 l1 in let '(t2, r2) := et_writes wwrite t1 l2 in (t2, r1 ++ r2)).
  { induction l1 as [|x l1 IH]; intros l2 t0; simpl.
    - destruct (et_writes wwrite t0 l2); reflexivity.
    - destruct (et_write wwrite t0 x) as [t1 r]. rewrite IH.
      destruct (et_writes wwrite t1 l1) as [t2 r2]. destruct (et_writes wwrite t2 l2) as [t3 r3]. reflexivity. }
  rewrite Happ. destruct (et_writes wwrite t a) as [t1 rs1] eqn:E1. simpl in Hp.
  assert (Hlen : length rs1 = length a).
  { clear -E1. revert t t1 rs1 E1. induction a as [|x a IH]; simpl; intros t t1 rs1 E1.
    - inversion E1; reflexivity.
    - destruct (et_write wwrite t x) as [t0 r]. destruct (et_writes wwrite t0 a) as [t2 r2] eqn:E2.
      inversion E1; subst. simpl. f_equal. eapply IH; eauto. }
  specialize (Ha t1 rs1 eq_refl). simpl.
  unfold et_write at 1. rewrite Ha. rewrite Hp.
  rewrite (sticky_after_error {| under := w'; eterr := Some e |} e b eq_refl).
  simpl. repeat split; auto.
  rewrite skipn_app, skipn_all2 by lia. rewrite Hlen, Nat.sub_diag. reflexivity.
Qed.
End TrackerProofs.

(* ================= C04: the protocol ================= *)
Section Protocol.
Variable itoa : N -> str.

Definition accepted (l : list N) (ord : list N) : list N := filter (fun x => memN_ x l) ord.

(* what the documented protocol says generator g must see, given the target-accepted types pord *)
Definition gen_protocol (c : ctx) (pord : list N) (g : gen) : list event :=
  let gord := accepted (gfilter g) pord in
  let vis := visible_namers c g in
  map (EvFilter (gname g) pord) pord ++
  [EvNamers (gname g) gord; EvVars (gname g) vis; EvConsts (gname g) vis; EvInit (gname g) vis gord] ++
  map (EvType (gname g)) gord ++
  [EvFinalize (gname g); EvImports (gname g)].

Definition target_protocol (c : ctx) (t : target) : list event :=
  let pord := accepted (tfilter t) (order c) in
  map (EvTFilter (order c)) (order c) ++ flat_map (gen_protocol c pord) (tgens t).

(* executeBody on the buffer *)
Lemma exec_body_ok g vis ord body evs b :
  exec_body itoa g vis ord body = (evs, b, None) ->
  evs = EvInit (gname g) vis ord :: map (EvType (gname g)) ord ++ [EvFinalize (gname g)].
Proof.
  unfold exec_body. destruct (ginit_err g); [discriminate|].
  set (loop := fix loop (ts : list N) (evs : list event) (b : str) : list event * str * option N :=
      match ts with
      | [] => let evs := evs ++ [EvFinalize (gname g)] in
              let b := b ++ gfin g in
              if gfin_err g then (evs, b, Some 2%N) else (evs, b, None)
      | t :: ts' =>
          let evs := evs ++ [EvType (gname g) t] in
          let b := b ++ gtype g ++ itoa t in
          if match gtype_err g with Some e => N.eqb e t | None => false end then (evs, b, Some 1%N)
          else loop ts' evs b
      end).
  assert (H : forall ts e0 b0 e1 b1, loop ts e0 b0 = (e1, b1, None) ->
              e1 = e0 ++ map (EvType (gname g)) ts ++ [EvFinalize (gname g)]).
  { induction ts as [|x ts IH]; simpl; intros e0 b0 e1 b1 Hl.
    - destruct (gfin_err g); inversion Hl; reflexivity.
    - destruct (match gtype_err g with Some e => N.eqb e x | None => false end); [discriminate|].
      apply IH in Hl. rewrite Hl, <- app_assoc. reflexivity. }
  intros Hl. apply H in Hl. exact Hl.
Qed.

Lemma exec_body_prefix g vis ord body evs b r :
  exec_body itoa g vis ord body = (evs, b, r) ->
  exists rest, EvInit (gname g) vis ord :: map (EvType (gname g)) ord ++ [EvFinalize (gname g)] = evs ++ rest.
Proof.
  unfold exec_body. destruct (ginit_err g).
  - intros H; inversion H; subst. eexists. simpl. reflexivity.
  - set (loop := fix loop (ts : list N) (evs : list event) (b : str) : list event * str * option N :=
      match ts with
      | [] => let evs := evs ++ [EvFinalize (gname g)] in
              let b := b ++ gfin g in
              if gfin_err g then (evs, b, Some 2%N) else (evs, b, None)
      | t :: ts' =>
          let evs := evs ++ [EvType (gname g) t] in
          let b := b ++ gtype g ++ itoa t in
          if match gtype_err g with Some e => N.eqb e t | None => false end then (evs, b, Some 1%N)
          else loop ts' evs b
      end).
    assert (H : forall ts e0 b0 e1 b1 r1, loop ts e0 b0 = (e1, b1, r1) ->
                exists rest, e0 ++ map (EvType (gname g)) ts ++ [EvFinalize (gname g)] = e1 ++ rest).
    { induction ts as [|x ts IH]; simpl; intros e0 b0 e1 b1 r1 Hl.
      - exists []. destruct (gfin_err g); inversion Hl; rewrite app_nil_r; reflexivity.
      - destruct (match gtype_err g with Some e => N.eqb e x | None => false end).
        + inversion Hl; subst. eexists. rewrite <- app_assoc. reflexivity.
        + apply IH in Hl. destruct Hl as [rest Hr]. exists rest. rewrite <- Hr, <- app_assoc. reflexivity. }
    intros Hl. apply H in Hl. exact Hl.
Qed.

(* one generator *)
Lemma gen_step_ok c t pord g files ev files' :
  gen_step itoa c t pord g files = (ev, inr files') -> ev = gen_protocol c pord g.
Proof.
  unfold gen_step. destruct (is_nil (gfiletype g)); [discriminate|].
  destruct (match find_file (gfilename g) files with
            | Some f => if negb (str_eqb (ftype f) (gfiletype g)) then Some (XConflict (fname f) (gname g)) else None
            | None => None end); [discriminate|].
  match goal with |- context [exec_body itoa g ?v ?o ?b] => destruct (exec_body itoa g v o b) as [[bevs body] herr] eqn:Eb end.
  destruct herr; [discriminate|]. intros H; inversion H; subst. apply exec_body_ok in Eb. subst bevs.
  unfold gen_protocol, accepted. rewrite <- ?app_assoc. simpl. rewrite <- ?app_assoc. reflexivity.
Qed.

Lemma gen_step_prefix c t pord g files ev r :
  gen_step itoa c t pord g files = (ev, r) -> exists rest, gen_protocol c pord g = ev ++ rest.
Proof.
  unfold gen_step, gen_protocol, accepted. destruct (is_nil (gfiletype g)).
  { intros H; inversion H; subst. eexists. rewrite <- ?app_assoc. simpl. reflexivity. }
  destruct (match find_file (gfilename g) files with
            | Some f => if negb (str_eqb (ftype f) (gfiletype g)) then Some (XConflict (fname f) (gname g)) else None
            | None => None end).
  { intros H; inversion H; subst. eexists. rewrite <- ?app_assoc. simpl. reflexivity. }
  match goal with |- context [exec_body itoa g ?v ?o ?b] => destruct (exec_body itoa g v o b) as [[bevs body] herr] eqn:Eb end.
  destruct herr.
  - intros H; inversion H; subst. apply exec_body_prefix in Eb. destruct Eb as [rest Hr].
    exists (rest ++ [EvImports (gname g)]). rewrite <- ?app_assoc. simpl. rewrite <- ?app_assoc. simpl.
    do 3 f_equal. rewrite app_assoc. rewrite <- Hr. simpl. rewrite <- app_assoc. reflexivity.
  - intros H; inversion H; subst. apply exec_body_ok in Eb. subst bevs. exists [].
    rewrite app_nil_r. rewrite <- ?app_assoc. simpl. rewrite <- ?app_assoc. reflexivity.
Qed.

(* the generator loop *)
Lemma gen_loop_ok c t pord : forall gs evs files evs' files',
  gen_loop itoa c t pord gs evs files = (evs', files', None) ->
  evs' = evs ++ flat_map (gen_protocol c pord) gs.
Proof.
  induction gs as [|g gs IH]; simpl; intros evs files evs' files' H.
  - inversion H. rewrite app_nil_r. reflexivity.
  - destruct (gen_step itoa c t pord g files) as [ev [e|fs]] eqn:Es; [discriminate|].
    apply gen_step_ok in Es. subst ev. apply IH in H. rewrite H, <- app_assoc. reflexivity.
Qed.

Lemma gen_loop_prefix c t pord : forall gs evs files evs' files' r,
  gen_loop itoa c t pord gs evs files = (evs', files', r) ->
  exists rest, evs ++ flat_map (gen_protocol c pord) gs = evs' ++ rest.
Proof.
  induction gs as [|g gs IH]; simpl; intros evs files evs' files' r H.
  - inversion H. exists []. reflexivity.
  - destruct (gen_step itoa c t pord g files) as [ev [e|fs]] eqn:Es.
    + inversion H; subst. apply gen_step_prefix in Es. destruct Es as [rest Hr]. rewrite Hr.
      eexists. rewrite <- ?app_assoc. reflexivity.
    + pose proof (gen_step_ok _ _ _ _ _ _ _ Es) as He. subst ev. apply IH in H. destruct H as [rest Hr].
      exists rest. rewrite <- Hr, <- app_assoc. reflexivity.
Qed.

(* errors of the generator loop are never the two assembly-stage errors *)
Lemma gen_loop_err_kind c t pord : forall gs evs files evs' files' e,
  gen_loop itoa c t pord gs evs files = (evs', files', Some e) ->
  (forall x, e <> XUnknownType x) /\ (forall fs, e <> XAssemble fs).
Proof.
  induction gs as [|g gs IH]; simpl; intros evs files evs' files' e H; [discriminate|].
  destruct (gen_step itoa c t pord g files) as [ev [e0|fs]] eqn:Es; [|eapply IH; eauto].
  inversion H; subst. clear H. unfold gen_step in Es.
  destruct (is_nil (gfiletype g)); [inversion Es; subst; split; discriminate|].
  destruct (find_file (gfilename g) files') as [f|].
  - destruct (negb (str_eqb (ftype f) (gfiletype g))); [inversion Es; subst; split; discriminate|].
    match type of Es with context [exec_body itoa g ?v ?o ?b] => destruct (exec_body itoa g v o b) as [[bevs body] herr] end.
    destruct herr; inversion Es; subst; split; discriminate.
  - match type of Es with context [exec_body itoa g ?v ?o ?b] => destruct (exec_body itoa g v o b) as [[bevs body] herr] end.
    destruct herr; inversion Es; subst; split; discriminate.
Qed.

(* C04: the trace of a target IS the documented protocol when no generator fails ... *)
Theorem trace_is_protocol c t : tdir t <> [] ->
  (forall e, r_err (exec_target itoa c t) = Some e -> (exists x, e = XUnknownType x) \/ exists fs, e = XAssemble fs) ->
  r_events (exec_target itoa c t) = target_protocol c t.
Proof.
  intros Hd Herr. unfold exec_target in *. destruct (tdir t) eqn:Ed; [congruence|].
  destruct (gen_loop itoa c t _ (tgens t) _ []) as [[evs files] err] eqn:El.
  destruct err as [e|].
  - simpl in Herr. destruct (gen_loop_err_kind _ _ _ _ _ _ _ _ _ El) as [H1 H2].
    destruct (Herr e eq_refl) as [[x Hx]|[fs Hx]]; subst e; exfalso; [eapply H1|eapply H2]; eauto.
  - apply gen_loop_ok in El. unfold target_protocol, accepted.
    destruct (find _ files); simpl; exact El.
Qed.

(* ... and in every case a prefix of it: no hook is skipped, repeated or run out of order *)
Theorem trace_is_protocol_prefix c t : tdir t <> [] ->
  exists rest, target_protocol c t = r_events (exec_target itoa c t) ++ rest.
Proof.
  intros Hd. unfold exec_target. destruct (tdir t) eqn:Ed; [congruence|].
  destruct (gen_loop itoa c t _ (tgens t) _ []) as [[evs files] err] eqn:El.
  apply gen_loop_prefix in El. destruct El as [rest Hr]. exists rest.
  unfold target_protocol, accepted. rewrite Hr.
  destruct err; simpl; auto. destruct (find _ files); simpl; auto.
Qed.

(* C13: an error from the generator loop (a failing hook, a missing or conflicting file type)
   means no file of the target is handed to a file type *)
Theorem generator_error_no_files c t e :
  r_err (exec_target itoa c t) = Some e ->
  (forall fs, e <> XAssemble fs) ->
  r_files (exec_target itoa c t) = Some [].
Proof.
  unfold exec_target. destruct (tdir t); [reflexivity|].
  destruct (gen_loop itoa c t _ (tgens t) _ []) as [[evs files] err].
  destruct err; [reflexivity|].
  destruct (find _ files); simpl; intros H H2; [reflexivity|].
  destruct (filter _ _); inversion H; subst. exfalso. eapply H2; eauto.
Qed.

Lemma exec_body_hook g vis ord body evs b w : exec_body itoa g vis ord body = (evs, b, Some w) ->
  (w = 0%N /\ ginit_err g = true) \/ (w = 1%N /\ exists x, gtype_err g = Some x /\ In x ord) \/ (w = 2%N /\ gfin_err g = true).
Proof.
  unfold exec_body. destruct (ginit_err g) eqn:Ei; [intros H; inversion H; auto|].
  set (loop := fix loop (ts : list N) (evs : list event) (b : str) : list event * str * option N :=
      match ts with
      | [] => let evs := evs ++ [EvFinalize (gname g)] in
              let b := b ++ gfin g in
              if gfin_err g then (evs, b, Some 2%N) else (evs, b, None)
      | t :: ts' =>
          let evs := evs ++ [EvType (gname g) t] in
          let b := b ++ gtype g ++ itoa t in
          if match gtype_err g with Some e => N.eqb e t | None => false end then (evs, b, Some 1%N)
          else loop ts' evs b
      end).
  assert (H : forall ts e0 b0 e1 b1, loop ts e0 b0 = (e1, b1, Some w) ->
     (w = 1%N /\ exists x, gtype_err g = Some x /\ In x ts) \/ (w = 2%N /\ gfin_err g = true)).
  { induction ts as [|x ts IH]; simpl; intros e0 b0 e1 b1 Hl.
    - destruct (gfin_err g); inversion Hl; auto.
    - destruct (gtype_err g) as [e|] eqn:Et.
      + destruct (N.eqb_spec e x).
        * inversion Hl; subst. left. split; auto. exists x. auto.
        * apply IH in Hl. destruct Hl as [[H1 [y [Hy1 Hy2]]]|H2]; auto. left. split; auto. exists y. auto.
      + apply IH in Hl. destruct Hl as [[H1 [y [Hy1 Hy2]]]|H2]; auto. discriminate. }
  intros Hl. apply H in Hl. tauto.
Qed.

(* all files are attempted and every failing one is named *)
Theorem assembly_errors_aggregated c t files :
  r_files (exec_target itoa c t) = Some files -> files <> [] ->
  r_err (exec_target itoa c t) =
    match filter (fun n => mem_str n (assemble_fails c)) (map fname files) with
    | [] => None
    | bad => Some (XAssemble (sort_strs bad))
    end.
Proof.
  unfold exec_target. destruct (tdir t); [intros H; inversion H; congruence|].
  destruct (gen_loop itoa c t _ (tgens t) _ []) as [[evs fs] err].
  destruct err; [intros H; inversion H; congruence|].
  destruct (find _ fs); simpl; [intros H; inversion H; congruence|]. intros H; inversion H; subst. intros _.
  destruct (filter (fun n => mem_str n (assemble_fails c)) (map fname files)); reflexivity.
Qed.

(* targets are independent: a failing target does not stop later ones, and the run fails iff
   some target failed *)
Theorem targets_continue c ts :
  fst (exec_targets itoa c ts) = map (exec_target itoa c) ts /\
  (snd (exec_targets itoa c ts) = true <-> exists t, In t ts /\ r_err (exec_target itoa c t) <> None).
Proof.
  unfold exec_targets. simpl. split; auto. rewrite existsb_exists. split.
  - intros [r [Hr He]]. apply in_map_iff in Hr. destruct Hr as [t [<- Ht]]. exists t. split; auto.
    destruct (r_err _); [discriminate|discriminate].
  - intros [t [Ht He]]. exists (exec_target itoa c t). split; [apply in_map; auto|].
    destruct (r_err _); [reflexivity|congruence].
Qed.

(* generators naming the same file contribute to ONE file, in generator order; the header is the
   first contributor's; other files are untouched *)
Definition emitted (g : gen) (gord : list N) : str :=
  ginit g ++ concat (map (fun x => gtype g ++ itoa x) gord) ++ gfin g.

Lemma exec_body_text g vis ord body evs b :
  exec_body itoa g vis ord body = (evs, b, None) -> b = body ++ emitted g ord.
Proof.
  unfold exec_body, emitted. destruct (ginit_err g); [discriminate|].
  set (loop := fix loop (ts : list N) (evs : list event) (b : str) : list event * str * option N :=
      match ts with
      | [] => let evs := evs ++ [EvFinalize (gname g)] in
              let b := b ++ gfin g in
              if gfin_err g then (evs, b, Some 2%N) else (evs, b, None)
      | t :: ts' =>
          let evs := evs ++ [EvType (gname g) t] in
          let b := b ++ gtype g ++ itoa t in
          if match gtype_err g with Some e => N.eqb e t | None => false end then (evs, b, Some 1%N)
          else loop ts' evs b
      end).
  assert (H : forall ts e0 b0 e1 b1, loop ts e0 b0 = (e1, b1, None) ->
              b1 = b0 ++ concat (map (fun x => gtype g ++ itoa x) ts) ++ gfin g).
  { induction ts as [|x ts IH]; simpl; intros e0 b0 e1 b1 Hl.
    - destruct (gfin_err g); inversion Hl; reflexivity.
    - destruct (match gtype_err g with Some e => N.eqb e x | None => false end); [discriminate|].
      apply IH in Hl. rewrite Hl, <- ?app_assoc. reflexivity. }
  intros Hl. apply H in Hl. rewrite Hl, <- ?app_assoc. reflexivity.
Qed.

Lemma find_put_same f fs : find_file (fname f) (put_file f fs) = Some f.
Proof.
  induction fs as [|f' fs IH]; simpl.
  - rewrite str_eqb_refl. reflexivity.
  - destruct (str_eqb_spec (fname f') (fname f)) as [E|E]; simpl.
    + rewrite str_eqb_refl. reflexivity.
    + destruct (str_eqb_spec (fname f') (fname f)); [congruence|]. exact IH.
Qed.
Lemma find_put_other f fs n : n <> fname f -> find_file n (put_file f fs) = find_file n fs.
Proof.
  intros Hn. induction fs as [|f' fs IH]; simpl.
  - destruct (str_eqb_spec (fname f) n); [congruence|reflexivity].
  - destruct (str_eqb_spec (fname f') (fname f)) as [E|E]; simpl.
    + destruct (str_eqb_spec (fname f) n); [congruence|]. destruct (str_eqb_spec (fname f') n); [congruence|reflexivity].
    + destruct (str_eqb_spec (fname f') n); auto.
Qed.

Theorem file_merge_step c t pord g files ev files' :
  gen_step itoa c t pord g files = (ev, inr files') ->
  let gord := accepted (gfilter g) pord in
  (exists f', find_file (gfilename g) files' = Some f' /\
     fbody f' = ended (match find_file (gfilename g) files with Some f => fbody f | None => [] end) ++ emitted g gord /\
     fheader f' = match find_file (gfilename g) files with Some f => fheader f | None => theader t end /\
     ftype f' = gfiletype g) /\
  (forall n, n <> gfilename g -> find_file n files' = find_file n files).
Proof.
  unfold gen_step. destruct (is_nil (gfiletype g)); [discriminate|].
  destruct (find_file (gfilename g) files) as [f|] eqn:Ef.
  - destruct (str_eqb_spec (ftype f) (gfiletype g)) as [Et|Et]; simpl; [|discriminate].
    match goal with |- context [exec_body itoa g ?v ?o ?b] => destruct (exec_body itoa g v o b) as [[bevs body] herr] eqn:Eb end.
    destruct herr; [discriminate|]. intros H; inversion H; subst. clear H. apply exec_body_text in Eb.
    assert (Hn : fname f = gfilename g).
    { clear -Ef. induction files as [|x xs IH]; simpl in Ef; [discriminate|].
      destruct (str_eqb_spec (fname x) (gfilename g)); [inversion Ef; subst; auto|auto]. }
    split.
    + eexists. split; [rewrite <- Hn; apply (find_put_same {| fname := fname f |})|]. simpl. auto.
    + intros n Hne. apply find_put_other. simpl. congruence.
  - simpl.
    match goal with |- context [exec_body itoa g ?v ?o ?b] => destruct (exec_body itoa g v o b) as [[bevs body] herr] eqn:Eb end.
    destruct herr; [discriminate|]. intros H; inversion H; subst. clear H. apply exec_body_text in Eb.
    split.
    + eexists. split; [apply (find_put_same {| fname := gfilename g |})|]. simpl. auto.
    + intros n Hne. apply find_put_other. simpl. congruence.
Qed.

(* the separator: what earlier generators wrote is ended by a newline (unless nothing was written),
   and nothing else is added to it *)
Lemma ended_spec b : (ended b = b \/ ended b = b ++ nl) /\ (b <> [] -> exists b', ended b = b' ++ nl).
Proof.
  unfold ended. destruct (rev b) as [|c r] eqn:E.
  - split; [left; reflexivity|]. intros H. exfalso. apply H. rewrite <- (rev_involutive b), E. reflexivity.
  - destruct (N.eqb_spec c 10) as [->|Hc].
    + split; [left; reflexivity|]. intros _. exists (rev r). rewrite <- (rev_involutive b), E. reflexivity.
    + split; [right; reflexivity|]. intros _. exists b. reflexivity.
Qed.

(* namers are private: what a generator's hooks see is a function of the context's namers and
   its own only *)
Theorem namers_private c g :
  visible_namers c g = match gnamers g with
                       | None => map (own_mark false) (sort_strs (namers c))
                       | Some l => map (fun n => own_mark (mem_str n l) n) (union_sorted (namers c) l) end.
Proof. reflexivity. Qed.

(* on a collision the generator's own naming system wins: a name is bound to the context's system
   only if the generator did not return a system of that name *)
Lemma own_mark_inj b1 b2 n1 n2 : own_mark b1 n1 = own_mark b2 n2 -> b1 = b2 /\ n1 = n2.
Proof.
  unfold own_mark. intros H. apply (f_equal (@rev N)) in H. rewrite !rev_app_distr in H.
  destruct b1, b2; simpl in H; try discriminate; injection H as H; apply (f_equal (@rev N)) in H; rewrite !rev_involutive in H; auto.
Qed.
Theorem own_namer_wins c g l n b : gnamers g = Some l -> In (own_mark b n) (visible_namers c g) -> b = mem_str n l.
Proof.
  intros Hg H. unfold visible_namers in H. rewrite Hg in H. apply in_map_iff in H. destruct H as [x [Hx _]].
  apply own_mark_inj in Hx. destruct Hx as [Hb Hn]. subst. reflexivity.
Qed.
Theorem no_own_namers c g n b : gnamers g = None -> In (own_mark b n) (visible_namers c g) -> b = false.
Proof.
  intros Hg H. unfold visible_namers in H. rewrite Hg in H. apply in_map_iff in H. destruct H as [x [Hx _]].
  apply own_mark_inj in Hx. destruct Hx as [Hb _]. subst. reflexivity.
Qed.
End Protocol.
