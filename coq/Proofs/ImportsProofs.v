(* Direct imports and package names in the model of the universe construction (C01: "package path and
   name, direct imports"): after a load, every requested package is on record with the name and the
   sorted list of imports the type checker reported for it, and no later step of the same load --
   declarations of other packages filed under it, packages created because something imports them --
   changes either. *)
Require Import List NArith Bool Lia.
Import ListNotations.
Require Import Gengo.Base.Str Gengo.Base.Sexp Gengo.Base.StrOrder Gengo.Model.Universe.


Lemma existsb_path w path :
  existsb (fun r => str_eqb (pr_path r) path) (w_pkgs w) = true <-> exists r, In r (w_pkgs w) /\ pr_path r = path.
Proof.
  rewrite existsb_exists. split; intros [r [Hi He]]; exists r; split; auto; apply str_eqb_eq; exact He.
Qed.

Lemma get_pkg_has w path : exists r, In r (w_pkgs (get_pkg w path)) /\ pr_path r = path.
Proof.
  unfold get_pkg. destruct (existsb _ _) eqn:E.
  - apply existsb_path; exact E.
  - eexists; split; [cbn [w_pkgs]; apply in_or_app; right; left; reflexivity | reflexivity].
Qed.

Definition keeps_path (f : pkgrec -> pkgrec) : Prop := forall r, pr_path (f r) = pr_path r.

Section Proj.
Context {A : Type}.
Variable proj : pkgrec -> A.     (* the observed field of a package record: its imports, or its name *)

(* there is a record of [path], and every record of [path] shows [a] *)
Definition on_record (w : world) (path : str) (a : A) : Prop :=
  (exists r, In r (w_pkgs w) /\ pr_path r = path) /\
  forall r, In r (w_pkgs w) -> pr_path r = path -> proj r = a.

(* a record update that keeps the path and the observed field *)
Definition quiet (f : pkgrec -> pkgrec) : Prop := forall r, pr_path (f r) = pr_path r /\ proj (f r) = proj r.

Lemma get_pkg_on_record w path' path a :
  on_record w path a -> on_record (get_pkg w path') path a.
Proof.
  intros [Hex Hall]. unfold get_pkg. destruct (existsb _ _) eqn:E; [split; assumption|].
  split.
  - destruct Hex as [r [Hi He]]. exists r; split; [cbn [w_pkgs]; apply in_or_app; left; exact Hi | exact He].
  - cbn [w_pkgs]. intros r Hi He. apply in_app_or in Hi. destruct Hi as [Hi | [Hi | []]]; [apply Hall; assumption|].
    subst r. cbn [pr_path] in He. subst path'.
    exfalso. assert (T : existsb (fun r => str_eqb (pr_path r) path) (w_pkgs w) = true) by (apply existsb_path; exact Hex).
    congruence.
Qed.

Lemma upd_pkg_quiet w path' f path a :
  quiet f -> on_record w path a -> on_record (upd_pkg w path' f) path a.
Proof.
  intros Hq Hr. apply (get_pkg_on_record _ path') in Hr. destruct Hr as [Hex Hall].
  unfold upd_pkg. split; cbn [w_pkgs].
  - destruct Hex as [r [Hi He]].
    exists (if str_eqb (pr_path r) path' then f r else r). split.
    + apply in_map_iff. exists r; split; [reflexivity | exact Hi].
    + destruct (str_eqb _ _); [rewrite (proj1 (Hq r))|]; exact He.
  - intros r Hi He. apply in_map_iff in Hi. destruct Hi as [r0 [Er Hi]]. subst r.
    destruct (str_eqb (pr_path r0) path').
    + destruct (Hq r0) as [Hp Hv]. rewrite Hp in He. rewrite Hv. apply Hall; assumption.
    + apply Hall; assumption.
Qed.

(* an update of ANOTHER package's record never matters, whatever it writes *)
Lemma upd_pkg_other w path' f path a :
  keeps_path f -> path' <> path -> on_record w path a -> on_record (upd_pkg w path' f) path a.
Proof.
  intros Hk Hne Hr. apply (get_pkg_on_record _ path') in Hr. destruct Hr as [Hex Hall].
  unfold upd_pkg. split; cbn [w_pkgs].
  - destruct Hex as [r [Hi He]].
    exists r. split; [|exact He].
    apply in_map_iff. exists r; split; [|exact Hi].
    destruct (str_eqb_spec (pr_path r) path'); [congruence | reflexivity].
  - intros r Hi He. apply in_map_iff in Hi. destruct Hi as [r0 [Er Hi]]. subst r.
    destruct (str_eqb_spec (pr_path r0) path') as [E|E].
    + rewrite Hk in He. congruence.
    + apply Hall; assumption.
Qed.

(* the update that sets the field *)
Lemma upd_pkg_sets w path f a :
  keeps_path f -> (forall r, proj (f r) = a) -> on_record (upd_pkg w path f) path a.
Proof.
  intros Hk Hf. destruct (get_pkg_has w path) as [r [Hi He]].
  unfold upd_pkg. split; cbn [w_pkgs].
  - exists (f r). split; [|rewrite Hk; exact He].
    apply in_map_iff. exists r; split; [|exact Hi]. rewrite He, str_eqb_refl; reflexivity.
  - intros r' Hi' He'. apply in_map_iff in Hi'. destruct Hi' as [r0 [Er Hi0]]. subst r'.
    destruct (str_eqb_spec (pr_path r0) path) as [E|E]; [apply Hf|]. congruence.
Qed.

Lemma get_pkgs_on_record l w path a :
  on_record w path a -> on_record (fold_left get_pkg l w) path a.
Proof.
  revert w. induction l as [|x l IH]; intros w Hr; cbn [fold_left]; [exact Hr|].
  apply IH. apply get_pkg_on_record. exact Hr.
Qed.
End Proj.

Section Build.
Variable v2 : bool.
Variable p : prog.
Variable fuel : nat.

(* filing a declaration never touches the name or the imports of any package record *)
Lemma add_obj_on_record {A} (proj : pkgrec -> A) w o w' path a :
  (forall r fs vs cs, proj {| pr_path := pr_path r; pr_name := pr_name r; pr_funcs := fs; pr_vars := vs; pr_consts := cs; pr_imports := pr_imports r |} = proj r) ->
  add_obj v2 p fuel (Some w) o = Some w' -> on_record proj w path a -> on_record proj w' path a.
Proof.
  intros Hproj H Hr. unfold add_obj in H. destruct o as [t | ostr sg | ostr ty | ostr ty v].
  - destruct (walk v2 p fuel (w_u w) None t) as [[u' o']|]; [|discriminate]. inversion H; subst w'. exact Hr.
  - destruct (walk v2 p fuel (w_u w) None sg) as [[u' o']|]; [|discriminate]. inversion H; subst w'.
    apply upd_pkg_quiet; [intros r; split; [reflexivity | apply Hproj] | exact Hr].
  - destruct (walk v2 p fuel (w_u w) None ty) as [[u' o']|]; [|discriminate]. inversion H; subst w'.
    apply upd_pkg_quiet; [intros r; split; [reflexivity | apply Hproj] | exact Hr].
  - destruct (walk v2 p fuel (w_u w) None ty) as [[u' o']|]; [|discriminate]. inversion H; subst w'.
    apply upd_pkg_quiet; [intros r; split; [reflexivity | apply Hproj] | exact Hr].
Qed.

Lemma add_objs_none os : fold_left (add_obj v2 p fuel) os None = None.
Proof. induction os as [|o os IH]; [reflexivity | exact IH]. Qed.

Lemma add_objs_on_record {A} (proj : pkgrec -> A) os w w' path a :
  (forall r fs vs cs, proj {| pr_path := pr_path r; pr_name := pr_name r; pr_funcs := fs; pr_vars := vs; pr_consts := cs; pr_imports := pr_imports r |} = proj r) ->
  fold_left (add_obj v2 p fuel) os (Some w) = Some w' -> on_record proj w path a -> on_record proj w' path a.
Proof.
  intros Hproj. revert w. induction os as [|o os IH]; intros w H Hr; cbn [fold_left] in H.
  - inversion H; subst; exact Hr.
  - destruct (add_obj v2 p fuel (Some w) o) as [w1|] eqn:E; [|rewrite add_objs_none in H; discriminate].
    eapply IH; [exact H|]. eapply add_obj_on_record; [exact Hproj | exact E | exact Hr].
Qed.

Definition pkg_facts (r : pkgrec) : list str * str := (pr_imports r, pr_name r).

(* loading a package puts it on record with the type checker's name and (sorted) imports ... *)
Lemma add_package_sets w g w' :
  add_package v2 p fuel (Some w) g = Some w' ->
  on_record pr_imports w' (g_path g) (sort_strs (g_imports g)) /\ on_record pr_name w' (g_path g) (g_name g).
Proof.
  unfold add_package. intros H.
  destruct (fold_left (add_obj v2 p fuel) (g_scope g) _) as [w2|] eqn:E; [|discriminate].
  inversion H; subst w'. clear H. split.
  - apply upd_pkg_sets; [intros r; reflexivity | intros r; reflexivity].
  - apply upd_pkg_quiet; [intros r; split; reflexivity|].
    apply get_pkgs_on_record.
    eapply add_objs_on_record; [intros; reflexivity | exact E |].
    apply upd_pkg_sets; [intros r; reflexivity | intros r; reflexivity].
Qed.

(* ... and loading ANOTHER package afterwards leaves both as they are *)
Lemma add_package_keeps {A} (proj : pkgrec -> A) w g w' path a :
  (forall r fs vs cs, proj {| pr_path := pr_path r; pr_name := pr_name r; pr_funcs := fs; pr_vars := vs; pr_consts := cs; pr_imports := pr_imports r |} = proj r) ->
  g_path g <> path ->
  add_package v2 p fuel (Some w) g = Some w' -> on_record proj w path a -> on_record proj w' path a.
Proof.
  intros Hproj Hne H Hr. unfold add_package in H.
  destruct (fold_left (add_obj v2 p fuel) (g_scope g) _) as [w2|] eqn:E; [|discriminate].
  inversion H; subst w'. clear H.
  apply upd_pkg_other; [intros r; reflexivity | exact Hne |].
  apply get_pkgs_on_record.
  eapply add_objs_on_record; [exact Hproj | exact E |].
  apply upd_pkg_other; [intros r; reflexivity | exact Hne | exact Hr].
Qed.

Lemma add_packages_none gs : fold_left (add_package v2 p fuel) gs None = None.
Proof. induction gs as [|g gs IH]; [reflexivity | exact IH]. Qed.

Lemma add_packages_keep {A} (proj : pkgrec -> A) gs w w' path a :
  (forall r fs vs cs, proj {| pr_path := pr_path r; pr_name := pr_name r; pr_funcs := fs; pr_vars := vs; pr_consts := cs; pr_imports := pr_imports r |} = proj r) ->
  ~ In path (map g_path gs) ->
  fold_left (add_package v2 p fuel) gs (Some w) = Some w' -> on_record proj w path a -> on_record proj w' path a.
Proof.
  intros Hproj. revert w. induction gs as [|g gs IH]; intros w Hni H Hr; cbn [fold_left] in H.
  - inversion H; subst; exact Hr.
  - destruct (add_package v2 p fuel (Some w) g) as [w1|] eqn:E; [|rewrite add_packages_none in H; discriminate].
    eapply IH; [intros Hin; apply Hni; right; exact Hin | exact H |].
    eapply add_package_keeps; [exact Hproj | intros Heq; apply Hni; left; exact Heq | exact E | exact Hr].
Qed.

Lemma add_packages_faithful gs w w' g :
  NoDup (map g_path gs) -> In g gs ->
  fold_left (add_package v2 p fuel) gs (Some w) = Some w' ->
  on_record pr_imports w' (g_path g) (sort_strs (g_imports g)) /\ on_record pr_name w' (g_path g) (g_name g).
Proof.
  revert w. induction gs as [|g0 gs IH]; intros w Hnd Hin H; [destruct Hin|].
  cbn [fold_left] in H. cbn [map] in Hnd. inversion Hnd as [|x l Hni Hnd']; subst.
  destruct (add_package v2 p fuel (Some w) g0) as [w1|] eqn:E; [|rewrite add_packages_none in H; discriminate].
  destruct Hin as [Heq | Hin].
  - subst g0. destruct (add_package_sets _ _ _ E) as [Hi Hn]. split.
    + eapply add_packages_keep; [intros; reflexivity | exact Hni | exact H | exact Hi].
    + eapply add_packages_keep; [intros; reflexivity | exact Hni | exact H | exact Hn].
  - eapply IH; eassumption.
Qed.

(* the whole load: every requested package of a program whose requested packages have distinct paths is
   on record, in every record filed under its path, with exactly the type checker's name and its
   direct imports in sorted order -- whatever else the load did, in whatever order *)
Theorem imports_and_name_faithful u0 pkgs w g :
  NoDup (map g_path (filter g_requested pkgs)) -> In g pkgs -> g_requested g = true ->
  build_from v2 p fuel u0 pkgs = Some w ->
  on_record pr_imports w (g_path g) (sort_strs (g_imports g)) /\ on_record pr_name w (g_path g) (g_name g).
Proof.
  intros Hnd Hin Hreq H. unfold build_from in H.
  eapply add_packages_faithful; [exact Hnd | apply filter_In; split; eassumption | exact H].
Qed.
End Build.

(* ---- one record per package path ---- *)
Definition unique_paths (w : world) : Prop := NoDup (map pr_path (w_pkgs w)).

Lemma NoDup_snoc {A} (l : list A) (x : A) : NoDup l -> ~ In x l -> NoDup (l ++ [x]).
Proof.
  induction l as [|y l IH]; intros Hnd Hni; cbn; [constructor; [intros []|constructor]|].
  inversion Hnd as [|y' l' Hy Hl]; subst. constructor.
  - intros Hin. apply in_app_or in Hin. destruct Hin as [Hin | [Heq | []]]; [exact (Hy Hin)|]. subst. apply Hni; left; reflexivity.
  - apply IH; [exact Hl|]. intros Hin; apply Hni; right; exact Hin.
Qed.

Lemma get_pkg_unique w path : unique_paths w -> unique_paths (get_pkg w path).
Proof.
  unfold unique_paths, get_pkg. intros H. destruct (existsb _ _) eqn:E; [exact H|].
  cbn [w_pkgs]. rewrite map_app. cbn [map pr_path].
  apply NoDup_snoc; [exact H|].
  intros Hin. apply in_map_iff in Hin. destruct Hin as [r [He Hi]].
  assert (T : existsb (fun r => str_eqb (pr_path r) path) (w_pkgs w) = true) by (apply existsb_path; exists r; split; assumption).
  congruence.
Qed.

Lemma upd_pkg_unique w path f : keeps_path f -> unique_paths w -> unique_paths (upd_pkg w path f).
Proof.
  intros Hk H. apply (get_pkg_unique _ path) in H. unfold unique_paths, upd_pkg in *. cbn [w_pkgs].
  rewrite map_map.
  erewrite map_ext; [exact H|].
  intros r. cbn. destruct (str_eqb _ _); [apply Hk | reflexivity].
Qed.

Lemma get_pkgs_unique l w : unique_paths w -> unique_paths (fold_left get_pkg l w).
Proof. revert w. induction l as [|x l IH]; intros w H; cbn [fold_left]; [exact H|]. apply IH, get_pkg_unique, H. Qed.

Section BuildUnique.
Variable v2 : bool.
Variable p : prog.
Variable fuel : nat.

Lemma add_obj_unique w o w' : add_obj v2 p fuel (Some w) o = Some w' -> unique_paths w -> unique_paths w'.
Proof.
  intros H Hu. unfold add_obj in H. destruct o as [t | ostr sg | ostr ty | ostr ty v].
  - destruct (walk v2 p fuel (w_u w) None t) as [[u' o']|]; [|discriminate]. inversion H; subst w'. exact Hu.
  - destruct (walk v2 p fuel (w_u w) None sg) as [[u' o']|]; [|discriminate]. inversion H; subst w'.
    apply upd_pkg_unique; [intros r; reflexivity | exact Hu].
  - destruct (walk v2 p fuel (w_u w) None ty) as [[u' o']|]; [|discriminate]. inversion H; subst w'.
    apply upd_pkg_unique; [intros r; reflexivity | exact Hu].
  - destruct (walk v2 p fuel (w_u w) None ty) as [[u' o']|]; [|discriminate]. inversion H; subst w'.
    apply upd_pkg_unique; [intros r; reflexivity | exact Hu].
Qed.

Lemma add_objs_unique os w w' :
  fold_left (add_obj v2 p fuel) os (Some w) = Some w' -> unique_paths w -> unique_paths w'.
Proof.
  revert w. induction os as [|o os IH]; intros w H Hu; cbn [fold_left] in H.
  - inversion H; subst; exact Hu.
  - destruct (add_obj v2 p fuel (Some w) o) as [w1|] eqn:E; [|rewrite add_objs_none in H; discriminate].
    eapply IH; [exact H|]. eapply add_obj_unique; eassumption.
Qed.

Lemma add_package_unique w g w' : add_package v2 p fuel (Some w) g = Some w' -> unique_paths w -> unique_paths w'.
Proof.
  unfold add_package. intros H Hu.
  destruct (fold_left (add_obj v2 p fuel) (g_scope g) _) as [w2|] eqn:E; [|discriminate].
  inversion H; subst w'. clear H.
  apply upd_pkg_unique; [intros r; reflexivity|].
  apply get_pkgs_unique.
  eapply add_objs_unique; [exact E|].
  apply upd_pkg_unique; [intros r; reflexivity | exact Hu].
Qed.

Lemma add_packages_unique gs w w' :
  fold_left (add_package v2 p fuel) gs (Some w) = Some w' -> unique_paths w -> unique_paths w'.
Proof.
  revert w. induction gs as [|g gs IH]; intros w H Hu; cbn [fold_left] in H.
  - inversion H; subst; exact Hu.
  - destruct (add_package v2 p fuel (Some w) g) as [w1|] eqn:E; [|rewrite add_packages_none in H; discriminate].
    eapply IH; [exact H|]. eapply add_package_unique; eassumption.
Qed.

Lemma get_pkgs_paths_unique (pkgs : list gpkg) w :
  unique_paths w -> unique_paths (fold_left (fun w g => get_pkg w (g_path g)) pkgs w).
Proof. revert w. induction pkgs as [|g l IH]; intros w H; cbn [fold_left]; [exact H|]. apply IH, get_pkg_unique, H. Qed.

(* every package of the universe is on record exactly once, whatever was loaded and in whatever order *)
Theorem one_record_per_path u0 pkgs w :
  build_from v2 p fuel u0 pkgs = Some w -> NoDup (map pr_path (w_pkgs w)).
Proof.
  intros H. unfold build_from in H.
  eapply add_packages_unique; [exact H|].
  destruct v2; [apply get_pkgs_paths_unique|]; constructor.
Qed.
End BuildUnique.
