(* C01 / C11: the entry of a defined type over a basic, map, slice, ... type (Kind Alias): kind,
   underlying object and method list are the ones named in the type checker's node table, whatever
   universe the walk happens in. *)
Require Import Gengo.Base.Str Gengo.Base.Sexp Gengo.Base.StrOrder Gengo.Model.Universe
               Gengo.Proofs.UniverseProofs Gengo.Proofs.CanonProofs Gengo.Proofs.FaithfulProofs Gengo.Proofs.FrameProofs
               Gengo.Proofs.IndepProofs Gengo.Proofs.MethodsProofs.

Section Alias.
Variable v2 : bool.
Variable p : prog.
Hypothesis Hok : named_ok v2 p.
Variable f : nat.
Notation rec := (walk v2 p f).

Lemma rec_inv : forall u use t u' o, canonical v2 u -> rec u use t = Some (u', o) ->
  (canonical v2 u' /\ forall k, node_key v2 p use t = Some k -> o = canon v2 k) /\ frame u u'.
Proof. intros u use t u' o C H. split; [eapply walk_canonical; eauto|eapply walk_frame; eauto]. Qed.

Definition method_is (m : str * str * N) (x : str * name) : Prop :=
  fst x = fst (fst m) /\ child_is v2 p (Some (name_of_string v2 (snd (fst m)))) (snd m) (snd x).

Theorem alias_faithful u use t tstr under ms tps origin u' o :
  wf u -> canonical v2 u -> plookup t p = Some (tstr, SNamed 0 under ms tps origin) ->
  walk v2 p (S f) u use t = Some (u', o) ->
  let g := get_or_create v2 u (name_of_string v2 tstr) in
  complete (fst g) (snd g) = false ->
  (forall e0, nlookup (snd g) (objs (fst g)) = Some e0 -> e_methods e0 = []) ->
  exists e, nlookup o (objs u') = Some e /\ e_kind e = s "Alias" /\
            (exists nu, e_under e = Some nu /\ child_is v2 p None under nu) /\
            Forall2 method_is ms (e_methods e).
Proof.
  intros W Hc Ep H g Hfresh Hnom. subst g. simpl in H. unfold walk_step in H. rewrite Ep in H.
  change (N.eqb 0 0) with true in H. cbv iota in H.
  destruct (get_or_create v2 u (name_of_string v2 tstr)) as [u0 o0] eqn:Eg. simpl in Hfresh, Hnom. rewrite Hfresh in H.
  destruct (get_or_create_canon _ _ _ _ _ Hc Eg) as [C0 _].
  pose proof (wf_ext _ _ (get_or_create_ext _ _ _ _ _ Eg) W) as W0.
  destruct (W0 _ _ (get_or_create_key _ _ _ _ _ Eg)) as [e0 He0].
  destruct (rec (update u0 o0 (set_kind "Alias")) None under) as [[u2 nu]|] eqn:E1; [|discriminate].
  assert (C1 : canonical v2 (update u0 o0 (set_kind "Alias"))) by (apply update_canon, C0).
  destruct (rec_inv _ _ _ _ _ C1 E1) as [[C2 K2] F2].
  pose proof (update_lookup_same u0 o0 (set_kind "Alias") e0 He0) as L1.
  assert (L2 : nlookup o0 (objs u2) = Some (set_kind "Alias" e0)) by (apply F2; [exact L1|discriminate]).
  pose proof (update_lookup_same u2 o0 (with_under nu) _ L2) as L3.
  unfold attach in H. rewrite L3 in H.
  assert (Em : e_methods (with_under nu (set_kind "Alias" e0)) = []) by (simpl; apply Hnom; exact He0).
  rewrite Em in H.
  destruct (walk_methods v2 rec (update u2 o0 (with_under nu)) ms) as [[u4 r]|] eqn:E4; [|discriminate].
  injection H as <- <-.
  assert (C3 : canonical v2 (update u2 o0 (with_under nu))) by (apply update_canon, C2).
  destruct (walk_methods_frame v2 p rec rec_inv _ _ _ _ C3 E4) as [C4 F4].
  assert (L4 : nlookup o0 (objs u4) = Some (with_under nu (set_kind "Alias" e0))) by (apply F4; [exact L3|discriminate]).
  exists (with_methods r (with_under nu (set_kind "Alias" e0))).
  split; [apply update_lookup_same; exact L4|]. split; [reflexivity|]. split.
  - exists nu. split; [reflexivity|]. destruct (walk_child_is v2 p Hok _ _ _ _ _ _ C1 E1) as [_ K2']. exact K2'.
  - destruct (walk_methods_names v2 p Hok f _ _ _ _ C3 E4) as [_ Fm]. exact Fm.
Qed.
End Alias.

(* ... hence independent of the universe the walk happens in *)
Theorem alias_independent v2 p : named_ok v2 p -> forall f1 f2 u1 u2 use1 use2 t tstr under ms tps origin u1' u2' o1 o2,
  wf u1 -> canonical v2 u1 -> wf u2 -> canonical v2 u2 ->
  plookup t p = Some (tstr, SNamed 0 under ms tps origin) ->
  keyed v2 p None under -> Forall (fun m => keyed v2 p (Some (name_of_string v2 (snd (fst m)))) (snd m)) ms ->
  (let g := get_or_create v2 u1 (name_of_string v2 tstr) in
   complete (fst g) (snd g) = false /\ forall e0, nlookup (snd g) (objs (fst g)) = Some e0 -> e_methods e0 = []) ->
  (let g := get_or_create v2 u2 (name_of_string v2 tstr) in
   complete (fst g) (snd g) = false /\ forall e0, nlookup (snd g) (objs (fst g)) = Some e0 -> e_methods e0 = []) ->
  walk v2 p (S f1) u1 use1 t = Some (u1', o1) -> walk v2 p (S f2) u2 use2 t = Some (u2', o2) ->
  exists e1 e2, nlookup o1 (objs u1') = Some e1 /\ nlookup o2 (objs u2') = Some e2 /\
                e_kind e1 = e_kind e2 /\ e_under e1 = e_under e2 /\ e_methods e1 = e_methods e2.
Proof.
  intros Hok f1 f2 u1 u2 use1 use2 t tstr under ms tps origin u1' u2' o1 o2 W1 C1 W2 C2 Ep Hku Hkm [F1 N1] [F2 N2] H1 H2.
  destruct (alias_faithful v2 p Hok f1 u1 use1 t tstr under ms tps origin u1' o1 W1 C1 Ep H1 F1 N1) as (e1 & L1 & K1 & (n1 & U1 & Ch1) & M1).
  destruct (alias_faithful v2 p Hok f2 u2 use2 t tstr under ms tps origin u2' o2 W2 C2 Ep H2 F2 N2) as (e2 & L2 & K2 & (n2 & U2 & Ch2) & M2).
  exists e1, e2. split; [exact L1|]. split; [exact L2|]. split; [congruence|]. split.
  - rewrite U1, U2. f_equal. exact (child_is_unique v2 p None under _ _ Hku Ch1 Ch2).
  - eapply methods_unique; eauto.
Qed.

(* the same, with the side condition discharged: in universes reached by lookups and loads from the
   empty universe (winv': well-formed, canonical, every undecided entry still the blank placeholder) *)
Theorem alias_independent_of_history v2 p : named_ok v2 p -> forall f1 f2 u1 u2 use1 use2 t tstr under ms tps origin u1' u2' o1 o2,
  winv' v2 u1 -> winv' v2 u2 ->
  plookup t p = Some (tstr, SNamed 0 under ms tps origin) ->
  keyed v2 p None under -> Forall (fun m => keyed v2 p (Some (name_of_string v2 (snd (fst m)))) (snd m)) ms ->
  complete (fst (get_or_create v2 u1 (name_of_string v2 tstr))) (snd (get_or_create v2 u1 (name_of_string v2 tstr))) = false ->
  complete (fst (get_or_create v2 u2 (name_of_string v2 tstr))) (snd (get_or_create v2 u2 (name_of_string v2 tstr))) = false ->
  walk v2 p (S f1) u1 use1 t = Some (u1', o1) -> walk v2 p (S f2) u2 use2 t = Some (u2', o2) ->
  exists e1 e2, nlookup o1 (objs u1') = Some e1 /\ nlookup o2 (objs u2') = Some e2 /\
                e_kind e1 = e_kind e2 /\ e_under e1 = e_under e2 /\ e_methods e1 = e_methods e2.
Proof.
  intros Hok f1 f2 u1 u2 use1 use2 t tstr under ms tps origin u1' u2' o1 o2 (W1 & C1 & M1) (W2 & C2 & M2) Ep Hku Hkm F1 F2 H1 H2.
  assert (S1 : let g := get_or_create v2 u1 (name_of_string v2 tstr) in
    complete (fst g) (snd g) = false /\ forall e0, nlookup (snd g) (objs (fst g)) = Some e0 -> e_methods e0 = []).
  { cbv zeta. split; [exact F1|]. intros e0 L.
    destruct (get_or_create v2 u1 (name_of_string v2 tstr)) as [ua oa] eqn:Eg. simpl in *.
    exact (undecided_no_methods ua oa e0 (get_or_create_pristine v2 u1 _ ua oa M1 Eg) F1 L). }
  assert (S2 : let g := get_or_create v2 u2 (name_of_string v2 tstr) in
    complete (fst g) (snd g) = false /\ forall e0, nlookup (snd g) (objs (fst g)) = Some e0 -> e_methods e0 = []).
  { cbv zeta. split; [exact F2|]. intros e0 L.
    destruct (get_or_create v2 u2 (name_of_string v2 tstr)) as [ua oa] eqn:Eg. simpl in *.
    exact (undecided_no_methods ua oa e0 (get_or_create_pristine v2 u2 _ ua oa M2 Eg) F2 L). }
  exact (alias_independent v2 p Hok f1 f2 u1 u2 use1 use2 t tstr under ms tps origin u1' u2' o1 o2 W1 C1 W2 C2 Ep Hku Hkm S1 S2 H1 H2).
Qed.
