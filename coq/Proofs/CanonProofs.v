(* C06 / C11: the object a walk returns is a function of the type's spelling only -- not of the
   universe it is walked in, hence not of the order or grouping of loads. *)
Require Import Gengo.Base.Str Gengo.Base.Sexp Gengo.Base.StrOrder Gengo.Model.Universe Gengo.Proofs.UniverseProofs.

(* the object a key denotes: the shared singleton for builtin keys, the key itself otherwise *)
Definition canon (v2 : bool) (k : name) : name :=
  match (if str_eqb (fst k) [] then builtin_of v2 (snd k) else None) with
  | Some (bn, _) => ([], bn)
  | None => k
  end.
Definition canonical (v2 : bool) (u : univ) : Prop := forall k o, nlookup k (tkeys u) = Some o -> o = canon v2 k.

Lemma canonical_empty v2 : canonical v2 {| objs := []; tkeys := [] |}.
Proof. intros k o H. discriminate. Qed.

Lemma get_or_create_canon v2 u n u1 o : canonical v2 u -> get_or_create v2 u n = (u1, o) -> canonical v2 u1 /\ o = canon v2 n.
Proof.
  intros Hc. unfold get_or_create, canon. destruct (nlookup n (tkeys u)) as [o0|] eqn:Ek.
  - intros H; inversion H; subst. split; [exact Hc|]. apply (Hc _ _ Ek).
  - destruct (if str_eqb (fst n) [] then builtin_of v2 (snd n) else None) as [[bn bk]|] eqn:Eb;
      intros H; injection H as <- <-; (split; [|reflexivity]); intros k o Hk; simpl in Hk;
      (destruct (name_eqb_spec k n) as [->|Hne];
       [rewrite nlookup_nset_same in Hk; inversion Hk; subst; unfold canon; rewrite Eb; reflexivity
       |rewrite nlookup_nset_other in Hk by auto; apply (Hc _ _ Hk)]).
Qed.
Lemma update_canon v2 u o g : canonical v2 u -> canonical v2 (update u o g).
Proof. intros Hc. unfold update. destruct (nlookup o (objs u)); exact Hc. Qed.

(* the key under which a walk of node t (with name override use) registers its result *)
Definition node_key (v2 : bool) (p : prog) (use : option name) (t : N) : option name :=
  match plookup t p with
  | None => None
  | Some (tstr, sh) =>
      let nm := match use with Some n => n | None => name_of_string v2 tstr end in
      match sh with
      | SBasic n => Some ([], n)
      | STypeParam => None
      | SNamed cls _ _ tps _ =>
          let n0 := name_of_string v2 tstr in
          if N.eqb cls 0 then Some n0
          else if N.eqb cls 1 && v2 then
            Some (match tps with [] => n0 | _ => (fst n0, hd [] (split_on LBR (snd n0)) ++ [LBR] ++ join [44%N] (map fst tps) ++ [93%N]) end)
          else Some n0
      | _ => Some nm
      end
  end.

(* programs as go/types produces them: the underlying type of a defined type is an unnamed
   composite (never a basic type -- those are class 0 --, never a named type or type parameter) *)
Definition named_ok (v2 : bool) (p : prog) : Prop :=
  forall t tstr cls under ms tps origin, plookup t p = Some (tstr, SNamed cls under ms tps origin) -> N.eqb cls 0 = false ->
    let under' := if N.eqb cls 1 && v2 then
                    match origin with
                    | Some og => match plookup og p with Some (_, SNamed _ u' _ _ _) => u' | _ => under end
                    | None => under end
                  else under in
    exists ts sh, plookup under' p = Some (ts, sh) /\ composite sh = true.

Section Canon.
Variable v2 : bool.
Variable p : prog.
Hypothesis Hok : named_ok v2 p.
Variable rec : univ -> option name -> N -> option (univ * name).
Hypothesis rec_canon : forall u use t u' o, canonical v2 u -> rec u use t = Some (u', o) ->
  canonical v2 u' /\ forall k, node_key v2 p use t = Some k -> o = canon v2 k.

Lemma walk_list_canon : forall l u u' ns, canonical v2 u -> walk_list rec u l = Some (u', ns) -> canonical v2 u'.
Proof.
  induction l as [|x l IH]; intros u u' ns Hc H; simpl in H; [inversion H; subst; exact Hc|].
  destruct (rec u None x) as [[u1 n1]|] eqn:E1; [|discriminate].
  destruct (walk_list rec u1 l) as [[u2 ns2]|] eqn:E2; [|discriminate]. inversion H; subst.
  eapply IH; [|exact E2]. destruct (rec_canon _ _ _ _ _ Hc E1); auto.
Qed.
Lemma walk_methods_canon : forall ms u u' r, canonical v2 u -> walk_methods v2 rec u ms = Some (u', r) -> canonical v2 u'.
Proof.
  induction ms as [|[[mn mstr] sg] ms IH]; intros u u' r Hc H; simpl in H; [inversion H; subst; exact Hc|].
  destruct (rec u (Some (name_of_string v2 mstr)) sg) as [[u1 n1]|] eqn:E1; [|discriminate].
  destruct (walk_methods v2 rec u1 ms) as [[u2 r2]|] eqn:E2; [|discriminate]. inversion H; subst.
  eapply IH; [|exact E2]. destruct (rec_canon _ _ _ _ _ Hc E1); auto.
Qed.

Lemma simple_canon u nm k fill u' o : canonical v2 u ->
  (forall u1 u2 g, canonical v2 u1 -> fill u1 = Some (u2, g) -> canonical v2 u2) ->
  simple v2 u nm k fill = Some (u', o) -> canonical v2 u' /\ o = canon v2 nm.
Proof.
  intros Hc Hf. unfold simple. destruct (get_or_create v2 u nm) as [u0 o0] eqn:Eg.
  destruct (get_or_create_canon _ _ _ _ _ Hc Eg) as [C0 Eo].
  destruct (complete u0 o0); [intros H; inversion H; subst; auto|].
  destruct (fill (update u0 o0 (set_kind k))) as [[u2 g]|] eqn:Ef; [|discriminate].
  intros H; inversion H; subst. split; [|reflexivity]. apply update_canon. eapply Hf; [|exact Ef]. apply update_canon. exact C0.
Qed.

Lemma attach_canon r ms u' o : (forall u1 o1, r = Some (u1, o1) -> canonical v2 u1) ->
  attach v2 rec r ms = Some (u', o) -> canonical v2 u' /\ exists u1, r = Some (u1, o).
Proof.
  intros Hr. unfold attach. destruct r as [[u1 o1]|]; [|discriminate]. specialize (Hr _ _ eq_refl).
  destruct (nlookup o1 (objs u1)) as [e|]; [|intros H; inversion H; subst; eauto].
  destruct (e_methods e); [|intros H; inversion H; subst; eauto].
  destruct (walk_methods v2 rec u1 ms) as [[u2 r2]|] eqn:Em; [|discriminate].
  intros H; inversion H; subst. split; [|eauto]. apply update_canon. eapply walk_methods_canon; eauto.
Qed.

Ltac fill1 := let u1 := fresh in let u2 := fresh in let g := fresh in let C := fresh in let H := fresh in
  intros u1 u2 g C H; cbv beta in H;
  match type of H with
  | match rec ?a ?b ?c with _ => _ end = _ =>
      let E := fresh "E" in destruct (rec a b c) as [[? ?]|] eqn:E; [|discriminate];
      inversion H; subst; destruct (rec_canon _ _ _ _ _ C E); auto
  end.

Lemma walk_step_canon u use t u' o : canonical v2 u -> walk_step v2 p rec u use t = Some (u', o) ->
  canonical v2 u' /\ forall k, node_key v2 p use t = Some k -> o = canon v2 k.
Proof.
  intros Hc. unfold walk_step, node_key. destruct (plookup t p) as [[tstr sh]|] eqn:Ep; [|discriminate].
  set (nm := match use with Some n => n | None => name_of_string v2 tstr end).
  destruct sh as [n|e|e|len e|k e|e|fs|ms|ps rs vr recv|cls under ms tps origin| |].
  - destruct (get_or_create v2 u ([], n)) as [u0 o0] eqn:Eg. destruct (get_or_create_canon _ _ _ _ _ Hc Eg) as [C0 Eo].
    destruct (complete u0 o0); intros H; injection H as <- <-; (split; [auto using update_canon|intros k0 Hk; injection Hk as <-; exact Eo]).
  - intros H. eapply simple_canon in H; [destruct H as [C E]; split; [exact C|intros k0 Hk; injection Hk as <-; exact E] | exact Hc | fill1].
  - intros H. eapply simple_canon in H; [destruct H as [C E]; split; [exact C|intros k0 Hk; injection Hk as <-; exact E] | exact Hc | fill1].
  - intros H. eapply simple_canon in H; [destruct H as [C E]; split; [exact C|intros k0 Hk; injection Hk as <-; exact E] | exact Hc | fill1].
  - intros H. assert (Hf : forall u1 u2 g, canonical v2 u1 ->
        match rec u1 None e with
        | Some (u2, ne) => match rec u2 None k with Some (u3, nk) => Some (u3, fun x => with_key nk (with_elem ne x)) | None => None end
        | None => None end = Some (u2, g) -> canonical v2 u2).
    { intros u1 u2 g C1 Hf. destruct (rec u1 None e) as [[ua ne]|] eqn:E1; [|discriminate].
      destruct (rec ua None k) as [[ub nk]|] eqn:E2; [|discriminate]. inversion Hf; subst.
      destruct (rec_canon _ _ _ _ _ C1 E1) as [Ca _]. destruct (rec_canon _ _ _ _ _ Ca E2); auto. }
    destruct (simple_canon _ _ _ _ _ _ Hc Hf H) as [C E]. split; [exact C|]. intros k0 Hk; injection Hk as <-; exact E.
  - intros H. eapply simple_canon in H; [destruct H as [C E]; split; [exact C|intros k0 Hk; injection Hk as <-; exact E] | exact Hc | fill1].
  - intros H. assert (Hf : forall u1 u2 g, canonical v2 u1 ->
        match walk_list rec u1 (map snd fs) with
        | Some (u2, ns) => Some (u2, with_members (map (fun fn : str * bool * str * N * name => (fst (fst (fst (fst fn))), snd (fst (fst (fst fn))), snd (fst (fst fn)), snd fn)) (combine fs ns)))
        | None => None end = Some (u2, g) -> canonical v2 u2).
    { intros u1 u2 g C1 Hf. destruct (walk_list rec u1 (map snd fs)) as [[ua ns]|] eqn:E1; [|discriminate]. inversion Hf; subst.
      eapply walk_list_canon; eauto. }
    destruct (simple_canon _ _ _ _ _ _ Hc Hf H) as [C E]. split; [exact C|]. intros k0 Hk; injection Hk as <-; exact E.
  - intros H. assert (Hf : forall u1 u2 g, canonical v2 u1 ->
        match walk_methods v2 rec u1 ms with Some (u2, r) => Some (u2, with_methods r) | None => None end = Some (u2, g) -> canonical v2 u2).
    { intros u1 u2 g C1 Hf. destruct (walk_methods v2 rec u1 ms) as [[ua r]|] eqn:E1; [|discriminate]. inversion Hf; subst.
      eapply walk_methods_canon; eauto. }
    destruct (simple_canon _ _ _ _ _ _ Hc Hf H) as [C E]. split; [exact C|]. intros k0 Hk; injection Hk as <-; exact E.
  - intros H. assert (Hf : forall u1 u2 g, canonical v2 u1 ->
        match walk_list rec u1 (map snd ps) with
        | Some (u2, pn) => match walk_list rec u2 (map snd rs) with
            | Some (u3, rn) =>
                match (match recv with
                       | Some r => match rec u3 None r with Some (u4, n) => Some (u4, Some n) | None => None end
                       | None => Some (u3, None) end) with
                | Some (u4, rc) => Some (u4, with_sig {| s_params := combine (map fst ps) pn; s_results := combine (map fst rs) rn;
                                                          s_variadic := vr; s_recv := rc |})
                | None => None end
            | None => None end
        | None => None end = Some (u2, g) -> canonical v2 u2).
    { intros u1 u2 g C1 Hf. destruct (walk_list rec u1 (map snd ps)) as [[ua pn]|] eqn:E1; [|discriminate].
      destruct (walk_list rec ua (map snd rs)) as [[ub rn]|] eqn:E2; [|discriminate].
      pose proof (walk_list_canon _ _ _ _ (walk_list_canon _ _ _ _ C1 E1) E2) as Cb.
      destruct recv as [r|].
      - destruct (rec ub None r) as [[uc n]|] eqn:E3; [|discriminate]. inversion Hf; subst. destruct (rec_canon _ _ _ _ _ Cb E3); auto.
      - inversion Hf; subst. exact Cb. }
    destruct (simple_canon _ _ _ _ _ _ Hc Hf H) as [C E]. split; [exact C|]. intros k0 Hk; injection Hk as <-; exact E.
  - (* named *)
    pose proof (Hok _ _ _ _ _ _ _ Ep) as Hn.
    destruct (N.eqb cls 0) eqn:E0.
    { destruct (get_or_create v2 u (name_of_string v2 tstr)) as [u0 o0] eqn:Eg. destruct (get_or_create_canon _ _ _ _ _ Hc Eg) as [C0 Eo].
      destruct (complete u0 o0); [intros H; injection H as <- <-; split; [auto|intros k0 Hk; injection Hk as <-; exact Eo]|].
      destruct (rec (update u0 o0 (set_kind "Alias")) None under) as [[u2 nu]|] eqn:E1; [|discriminate].
      intros H. destruct (rec_canon _ _ _ _ _ (update_canon _ _ _ _ C0) E1) as [C2 _].
      assert (Hr : forall ua oa, Some (update u2 o0 (with_under nu), o0) = Some (ua, oa) -> canonical v2 ua)
        by (intros ua oa Ha; injection Ha as <- <-; apply update_canon; exact C2).
      destruct (attach_canon _ _ _ _ Hr H) as [C [ux Hx]].
      injection Hx as _ <-. split; [exact C|intros k0 Hk; injection Hk as <-; exact Eo]. }
    specialize (Hn eq_refl). cbv zeta in Hn.
    destruct (N.eqb cls 1 && v2) eqn:E1.
    { destruct (match origin with
                | Some og => match plookup og p with Some (_, SNamed _ u'0 m' _ _) => (u'0, m') | _ => (under, ms) end
                | None => (under, ms) end) as [under' ms'] eqn:Eu.
      assert (Hu : under' = match origin with
                    | Some og => match plookup og p with Some (_, SNamed _ u'0 _ _ _) => u'0 | _ => under end
                    | None => under end).
      { destruct origin as [og|]; [|inversion Eu; reflexivity]. destruct (plookup og p) as [[? [| | | | | | | | |? ? ? ? ?| |]]|]; inversion Eu; reflexivity. }
      destruct Hn as (ts & shu & Hpu & Hcomp). rewrite <- Hu in Hpu.
      destruct (walk_list rec u (map snd tps)) as [[ut tpn]|] eqn:Et; [|discriminate].
      pose proof (walk_list_canon _ _ _ _ Hc Et) as Ct.
      match goal with |- context [get_or_create v2 ut ?n] => destruct (get_or_create v2 ut n) as [u0 o0] eqn:Eg; set (nmg := n) in * end.
      destruct (get_or_create_canon _ _ _ _ _ Ct Eg) as [C0 Eo].
      destruct (complete u0 o0); [intros H; injection H as <- <-; split; [auto|intros k0 Hk; injection Hk as <-; exact Eo]|].
      destruct (rec u0 (Some nmg) under') as [[u1 o1]|] eqn:Er; [|discriminate].
      destruct (rec_canon _ _ _ _ _ C0 Er) as [C1 K1].
      intros H.
      assert (Hr : forall ua oa, Some (update u1 o1 (with_tparams (combine (map fst tps) tpn)), o1) = Some (ua, oa) -> canonical v2 ua)
        by (intros ua oa Ha; injection Ha as <- <-; apply update_canon; exact C1).
      destruct (attach_canon _ _ _ _ Hr H) as [C [ux Hx]].
      injection Hx as _ <-. split; [exact C|]. intros k0 Hk; injection Hk as <-.
      apply K1. unfold node_key. rewrite Hpu. destruct shu; try discriminate; reflexivity. }
    destruct Hn as (ts & shu & Hpu & Hcomp).
    destruct (get_or_create v2 u (name_of_string v2 tstr)) as [u0 o0] eqn:Eg. destruct (get_or_create_canon _ _ _ _ _ Hc Eg) as [C0 Eo].
    destruct (complete u0 o0); [intros H; injection H as <- <-; split; [auto|intros k0 Hk; injection Hk as <-; exact Eo]|].
    intros H.
    assert (Hr : forall ua oa, rec u0 (Some (name_of_string v2 tstr)) under = Some (ua, oa) -> canonical v2 ua)
      by (intros ua oa Ha; destruct (rec_canon _ _ _ _ _ C0 Ha); auto).
    destruct (attach_canon _ _ _ _ Hr H) as [C [ux Hx]].
    destruct (rec_canon _ _ _ _ _ C0 Hx) as [_ K1]. split; [exact C|]. intros k0 Hk; injection Hk as <-.
    apply K1. unfold node_key. rewrite Hpu. destruct shu; try discriminate; reflexivity.
  - intros H; inversion H; subst. split; [exact Hc|discriminate].
  - destruct (get_or_create v2 u nm) as [u0 o0] eqn:Eg. destruct (get_or_create_canon _ _ _ _ _ Hc Eg) as [C0 Eo].
    destruct (complete u0 o0); intros H; injection H as <- <-; (split; [auto using update_canon|intros k0 Hk; injection Hk as <-; exact Eo]).
Qed.
End Canon.

(* the object returned for a type occurrence is canon (its key): a function of the program text and
   of the occurrence only -- the same in every universe, after every history of loads *)
Theorem walk_canonical v2 p : named_ok v2 p -> forall fuel u use t u' o, canonical v2 u ->
  walk v2 p fuel u use t = Some (u', o) ->
  canonical v2 u' /\ forall k, node_key v2 p use t = Some k -> o = canon v2 k.
Proof.
  intros Hok. induction fuel as [|f IH]; intros u use t u' o Hc H; simpl in H; [discriminate|].
  eapply walk_step_canon; eauto.
Qed.

Corollary walk_same_object_everywhere v2 p : named_ok v2 p -> forall f1 f2 u1 u2 use t u1' u2' o1 o2 k,
  canonical v2 u1 -> canonical v2 u2 -> node_key v2 p use t = Some k ->
  walk v2 p f1 u1 use t = Some (u1', o1) -> walk v2 p f2 u2 use t = Some (u2', o2) -> o1 = o2.
Proof.
  intros Hok f1 f2 u1 u2 use t u1' u2' o1 o2 k C1 C2 Hk H1 H2.
  destruct (walk_canonical v2 p Hok _ _ _ _ _ _ C1 H1) as [_ K1]. destruct (walk_canonical v2 p Hok _ _ _ _ _ _ C2 H2) as [_ K2].
  rewrite (K1 _ Hk), (K2 _ Hk). reflexivity.
Qed.

(* ---------- loading ---------- *)
Lemma add_obj_canon v2 p fuel w o w' : named_ok v2 p -> canonical v2 (w_u w) ->
  add_obj v2 p fuel (Some w) o = Some w' -> canonical v2 (w_u w').
Proof.
  intros Hok Hc. unfold add_obj. destruct o as [t|ostr sg|ostr ty|ostr ty v].
  all: match goal with |- match walk ?vv ?pp ?ff ?a ?b ?c with _ => _ end = _ -> _ =>
         let E := fresh "E" in destruct (walk vv pp ff a b c) as [[u1 n1]|] eqn:E; [|discriminate];
         intros H; inversion H; subst; simpl; destruct (walk_canonical _ _ Hok _ _ _ _ _ _ Hc E); auto end.
Qed.
Lemma add_objs_canon v2 p fuel : named_ok v2 p -> forall l w w', canonical v2 (w_u w) ->
  fold_left (add_obj v2 p fuel) l (Some w) = Some w' -> canonical v2 (w_u w').
Proof.
  intros Hok. induction l as [|o l IH]; intros w w' H0 H; cbn [fold_left] in H.
  - inversion H; subst. exact H0.
  - destruct (add_obj v2 p fuel (Some w) o) as [w1|] eqn:E1; [|rewrite add_obj_none in H; discriminate].
    eapply IH; [|exact H]. eapply add_obj_canon; eauto.
Qed.
Lemma add_package_canon v2 p fuel w g w' : named_ok v2 p -> canonical v2 (w_u w) ->
  add_package v2 p fuel (Some w) g = Some w' -> canonical v2 (w_u w').
Proof.
  intros Hok H0. unfold add_package.
  match goal with |- match fold_left _ _ (Some ?w1) with _ => _ end = _ -> _ =>
    destruct (fold_left (add_obj v2 p fuel) (g_scope g) (Some w1)) as [w2|] eqn:E; [|discriminate] end.
  intros H; inversion H; subst. rewrite upd_pkg_u, fold_get_pkg_u. eapply add_objs_canon in E; eauto.
Qed.
Theorem load_canonical v2 p fuel : named_ok v2 p -> forall gs w w', canonical v2 (w_u w) ->
  fold_left (add_package v2 p fuel) gs (Some w) = Some w' -> canonical v2 (w_u w').
Proof.
  intros Hok. induction gs as [|g gs IH]; intros w w' H0 H; cbn [fold_left] in H.
  - inversion H; subst. exact H0.
  - destruct (add_package v2 p fuel (Some w) g) as [w1|] eqn:E1; [|rewrite add_package_none in H; discriminate].
    eapply IH; [|exact H]. eapply add_package_canon; eauto.
Qed.
Lemma lookups_canonical v2 : forall ks u, canonical v2 u -> canonical v2 (lookups v2 u ks).
Proof.
  induction ks as [|k ks IH]; intros u Hc; simpl; [exact Hc|]. apply IH.
  destruct (get_or_create v2 u k) as [u1 o] eqn:E. simpl. destruct (get_or_create_canon _ _ _ _ _ Hc E); auto.
Qed.

(* whatever the history -- any lookups first, then any sequence of loads in any order and
   grouping -- a key resolves to canon(key): two histories never disagree on which object a
   name denotes *)
Theorem histories_agree_on_objects v2 p fuel : named_ok v2 p -> forall pre1 pre2 gs1 gs2 pk1 pk2 w1 w2 k o1 o2,
  fold_left (add_package v2 p fuel) gs1 (Some {| w_u := lookups v2 {| objs := []; tkeys := [] |} pre1; w_pkgs := pk1 |}) = Some w1 ->
  fold_left (add_package v2 p fuel) gs2 (Some {| w_u := lookups v2 {| objs := []; tkeys := [] |} pre2; w_pkgs := pk2 |}) = Some w2 ->
  nlookup k (tkeys (w_u w1)) = Some o1 -> nlookup k (tkeys (w_u w2)) = Some o2 -> o1 = o2.
Proof.
  intros Hok pre1 pre2 gs1 gs2 pk1 pk2 w1 w2 k o1 o2 H1 H2 L1 L2.
  assert (C1 : canonical v2 (w_u w1)).
  { eapply (load_canonical v2 p fuel Hok); [|exact H1]. simpl. apply lookups_canonical, canonical_empty. }
  assert (C2 : canonical v2 (w_u w2)).
  { eapply (load_canonical v2 p fuel Hok); [|exact H2]. simpl. apply lookups_canonical, canonical_empty. }
  rewrite (C1 _ _ L1), (C2 _ _ L2). reflexivity.
Qed.

(* ---------- the well-formedness hypothesis is decidable (and checked on every program the
   harness hands to the model) ---------- *)
Lemma plookup_in t v : forall p, plookup t p = Some v -> In (t, v) p.
Proof.
  induction p as [|[k x] p IH]; simpl; [discriminate|].
  destruct (N.eqb_spec t k) as [->|Hne]; [intros H; inversion H; auto|auto].
Qed.
Lemma named_okb_sound v2 p : named_okb v2 p = true -> named_ok v2 p.
Proof.
  unfold named_okb, named_ok. rewrite forallb_forall. intros H t tstr cls under ms tps origin Hp Hc.
  specialize (H _ (plookup_in _ _ _ Hp)). simpl in H. rewrite Hc in H. cbv zeta in *.
  match goal with |- exists ts sh, plookup ?u p = _ /\ _ => destruct (plookup u p) as [[ts sh]|]; [|discriminate] end.
  eauto.
Qed.
