Require Import Gengo.Base.Str Gengo.Base.Sexp Gengo.Base.StrOrder Gengo.Base.SortSpec Gengo.Model.Order.
From Coq Require Import Permutation Sorting.Sorted.

Lemma key_inj a b : key a = key b -> a = b.
Proof. destruct a, b; unfold key; simpl; intros H; inversion H; subst; reflexivity. Qed.

Lemma entry_ltb_irrefl a : entry_ltb a a = false.
Proof. apply lex_irrefl; [apply str_eqb_spec|apply str_ltb_irrefl]. Qed.
Lemma entry_ltb_trans a b c : entry_ltb a b = true -> entry_ltb b c = true -> entry_ltb a c = true.
Proof. apply lex_trans; [apply str_eqb_spec|apply str_ltb_trans]. Qed.
Lemma entry_ltb_total a b : entry_ltb a b = true \/ a = b \/ entry_ltb b a = true.
Proof.
  destruct (lex_total str str_ltb str_eqb str_eqb_spec str_ltb_total (key a) (key b)) as [H|[H|H]]; auto.
  right; left. apply key_inj; auto.
Qed.

(* gathering: packages in any order, each table in any order *)
Definition pkg_perm (p q : pkg) : Prop :=
  Permutation (ptypes p) (ptypes q) /\ Permutation (pfuncs p) (pfuncs q) /\
  Permutation (pvars p) (pvars q) /\ Permutation (pconsts p) (pconsts q).

Lemma pkg_perm_entries p q : pkg_perm p q -> Permutation (pkg_entries p) (pkg_entries q).
Proof. intros [H1 [H2 [H3 H4]]]. unfold pkg_entries. repeat apply Permutation_app; auto. Qed.

Lemma flat_map_perm {A B} (f : A -> list B) l l' : Permutation l l' -> Permutation (flat_map f l) (flat_map f l').
Proof.
  induction 1; simpl; auto.
  - apply Permutation_app_head; auto.
  - rewrite !app_assoc. apply Permutation_app_tail. apply Permutation_app_comm.
  - eapply perm_trans; eauto.
Qed.

Theorem gather_any_order u u1 u2 :
  Permutation u u1 -> Forall2 pkg_perm u1 u2 -> Permutation (all_entries u) (all_entries u2).
Proof.
  intros Hp Hf. eapply perm_trans; [apply flat_map_perm; exact Hp|].
  clear Hp. unfold all_entries. induction Hf; simpl; [constructor|].
  apply Permutation_app; auto. apply pkg_perm_entries; auto.
Qed.

(* determinism: any contract-satisfying sort of any gathering is [order u] *)
Theorem order_deterministic u arranged out :
  Permutation (all_entries u) arranged ->
  Permutation arranged out -> no_inversion entry entry_ltb out ->
  out = order u.
Proof.
  intros H1 H2 H3. unfold order.
  exact (sort_contract_is_isort entry entry_ltb entry_ltb_irrefl entry_ltb_trans entry_ltb_total _ _ _ H1 H2 H3).
Qed.

Theorem order_complete u : Permutation (all_entries u) (order u).
Proof. apply isort_perm. Qed.

Lemma entry_le_name a b : entry_ltb b a = false -> str_ltb (oname b) (oname a) = false.
Proof.
  unfold entry_ltb, key. simpl. destruct (str_ltb (oname b) (oname a)); [discriminate|reflexivity].
Qed.

Theorem order_sorted_by_name out : no_inversion entry entry_ltb out -> names_sorted out = true.
Proof.
  induction 1 as [|a l Hs IH Hh]; simpl; auto.
  destruct l as [|b l']; auto. inversion Hh; subst.
  rewrite (entry_le_name a b) by assumption. simpl. exact IH.
Qed.

Theorem order_is_sorted u : names_sorted (order u) = true.
Proof.
  apply order_sorted_by_name.
  exact (isort_no_inversion entry entry_ltb entry_ltb_irrefl entry_ltb_trans entry_ltb_total _).
Qed.

(* before the fix: Less compared the namer's name only; with two entries of one name two
   different outputs meet sort.Sort's contract *)
Definition tie_a := {| oname := s "T"; epkg := s "a"; ename := s "T"; ekind := s "Struct" |}.
Definition tie_b := {| oname := s "T"; epkg := s "b"; ename := s "T"; ekind := s "Struct" |}.
Theorem order_by_name_only_refuted :
  exists input out1 out2,
    Permutation input out1 /\ no_inversion entry name_ltb out1 /\
    Permutation input out2 /\ no_inversion entry name_ltb out2 /\ out1 <> out2.
Proof.
  exists [tie_a; tie_b], [tie_a; tie_b], [tie_b; tie_a].
  split; [apply Permutation_refl|]. split; [repeat constructor|].
  split; [apply perm_swap|]. split; [repeat constructor|]. discriminate.
Qed.
