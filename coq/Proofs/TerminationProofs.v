(* Termination: on a node table in which every referenced node exists, walkType never runs out of
   budget when the budget is 2 * (number of keys the table can give rise to) + 2.  The argument is
   the real code's: an entry is marked with its kind BEFORE its children are walked, a marked entry
   is returned at once, so every second level of the recursion marks a key that was unmarked. *)
Require Import Gengo.Base.Str Gengo.Base.Sexp Gengo.Base.StrOrder Gengo.Model.Universe
               Gengo.Proofs.UniverseProofs Gengo.Proofs.CanonProofs.
From Coq Require Import Lia.

Section Term.
Variable v2 : bool.
Variable p : prog.

Notation mkey := (Universe.mkey v2).
Notation node_keys := (Universe.node_keys v2).
Notation allkeys := (Universe.allkeys v2 p).

Definition undecided (u : univ) (k : name) : bool := negb (complete u (canon v2 k)).
Definition M (u : univ) : nat := length (filter (undecided u) allkeys).

Lemma filter_le {A} (f g : A -> bool) : forall l, (forall x, g x = true -> f x = true) -> length (filter g l) <= length (filter f l).
Proof.
  induction l as [|x l IH]; intros H; simpl; [lia|]. specialize (IH H).
  destruct (g x) eqn:Eg; [rewrite (H x Eg); simpl; lia|]. destruct (f x); simpl; lia.
Qed.
Lemma filter_lt {A} (f g : A -> bool) : forall l x0, (forall x, g x = true -> f x = true) -> In x0 l -> f x0 = true -> g x0 = false ->
  length (filter g l) < length (filter f l).
Proof.
  induction l as [|x l IH]; intros x0 H Hin Hf Hg; [destruct Hin|]. simpl. destruct Hin as [->|Hin].
  - rewrite Hf, Hg. simpl. pose proof (filter_le f g l H). lia.
  - specialize (IH x0 H Hin Hf Hg). destruct (g x) eqn:Eg; [rewrite (H x Eg); simpl; lia|]. destruct (f x); simpl; lia.
Qed.

Lemma forallb_map {A B} (g : A -> B) (f : B -> bool) : forall l, forallb f (map g l) = forallb (fun x => f (g x)) l.
Proof. induction l as [|x l IH]; simpl; [reflexivity|rewrite IH; reflexivity]. Qed.
Lemma M_ext u u' : ext u u' -> M u' <= M u.
Proof.
  intros He. unfold M. apply filter_le. intros k Hk. unfold undecided in *.
  destruct (complete u (canon v2 k)) eqn:Ec; [|reflexivity]. rewrite (ext_complete _ _ _ He Ec) in Hk. discriminate.
Qed.

(* deciding the kind of a key of the table that was undecided *)
Lemma M_decide u k s e : In k allkeys -> complete u (canon v2 k) = false -> nlookup (canon v2 k) (objs u) = Some e -> s <> ""%string ->
  M (update u (canon v2 k) (set_kind s)) < M u.
Proof.
  intros Hin Hc He Hs. unfold M. apply (filter_lt _ _ allkeys k); auto.
  - intros x Hx. unfold undecided in *. destruct (complete u (canon v2 x)) eqn:Ec; [|reflexivity].
    rewrite (ext_complete _ _ _ (update_set_kind_ext u (canon v2 k) s Hc) Ec) in Hx. discriminate.
  - unfold undecided. rewrite Hc. reflexivity.
  - unfold undecided. rewrite (complete_kind _ _ s Hs (update_set_kind_kind u _ s e He)). reflexivity.
Qed.

(* ---------- the table refers only to nodes it contains ---------- *)
Notation has := (Universe.has p).
Notation is_tparam := (Universe.is_tparam p).
Notation is_func := (Universe.is_func p).
Notation shape_ok := (Universe.shape_ok p).
Notation prog_okb := (Universe.prog_okb p).

Lemma prog_ok_node : prog_okb = true -> forall t tstr sh, plookup t p = Some (tstr, sh) -> shape_ok sh = true.
Proof.
  unfold prog_okb. rewrite forallb_forall. intros H t tstr sh Hp. exact (H _ (plookup_in _ _ _ Hp)).
Qed.
Lemma is_func_has t : is_func t = true -> has t = true /\ match plookup t p with Some (_, sh) => composite sh = true | None => True end.
Proof. unfold is_func, has. destruct (plookup t p) as [[ts [| | | | | | | | | | |]]|]; try discriminate. auto. Qed.
Lemma node_keys_in t tstr sh k : plookup t p = Some (tstr, sh) -> In k (node_keys (t, (tstr, sh))) -> In k allkeys.
Proof. intros Hp Hk. unfold allkeys. apply in_flat_map. exists (t, (tstr, sh)). split; [apply plookup_in; exact Hp|exact Hk]. Qed.

Hypothesis Hprog : prog_okb = true.
Hypothesis Hnamed : named_ok v2 p.

(* which name overrides can occur *)
Definition use_ok (use : option name) : Prop := match use with None => True | Some n => In n allkeys end.

(* the statement, for a bound m on the number of undecided keys *)
Definition terminates (m : nat) : Prop := forall f u use t,
  M u <= m -> 2 * m + 2 <= f -> wf u -> canonical v2 u -> has t = true -> use_ok use ->
  (match use with Some _ => match plookup t p with Some (_, sh) => composite sh = true | None => True end | None => True end) ->
  walk v2 p f u use t <> None.

Section Step.
Variable m : nat.
Variable f : nat.
(* children are walked with budget f in universes with at most m - 1 undecided keys, or ... *)
Hypothesis IH : forall u use t, M u + 1 <= m -> wf u -> canonical v2 u -> has t = true -> use_ok use ->
  (match use with Some _ => match plookup t p with Some (_, sh) => composite sh = true | None => True end | None => True end) ->
  walk v2 p f u use t <> None.

Notation rec := (walk v2 p f).
Lemma rec_ext' : forall u use t u' o, rec u use t = Some (u', o) -> ext u u'.
Proof. intros. eapply walk_ext; eauto. Qed.
Lemma rec_can : forall u use t u' o, canonical v2 u -> rec u use t = Some (u', o) -> canonical v2 u'.
Proof. intros u use t u' o Hc H. destruct (walk_canonical v2 p Hnamed _ _ _ _ _ _ Hc H); auto. Qed.

Lemma list_ok : forall l u, M u + 1 <= m -> wf u -> canonical v2 u -> forallb has l = true -> walk_list rec u l <> None.
Proof.
  induction l as [|x l IHl]; intros u Hm W C Hl; simpl; [discriminate|]. simpl in Hl. apply andb_true_iff in Hl. destruct Hl as [Hx Hl].
  destruct (rec u None x) as [[u1 n1]|] eqn:E1; [|exfalso; eapply (IH u None x); eauto; simpl; auto].
  pose proof (rec_ext' _ _ _ _ _ E1) as He.
  destruct (walk_list rec u1 l) as [[u2 ns]|] eqn:E2; [discriminate|].
  exfalso. eapply (IHl u1); eauto; [pose proof (M_ext _ _ He); lia|eapply wf_ext; eauto|eapply rec_can; eauto].
Qed.
Lemma methods_ok : forall ms u, M u + 1 <= m -> wf u -> canonical v2 u -> forallb (fun x : str * str * N => is_func (snd x)) ms = true ->
  (forall x, In x ms -> In (mkey x) allkeys) ->
  walk_methods v2 rec u ms <> None.
Proof.
  induction ms as [|[[mn mstr] sg] ms IHl]; intros u Hm W C Hl Hk; simpl; [discriminate|]. simpl in Hl. apply andb_true_iff in Hl. destruct Hl as [Hx Hl].
  destruct (is_func_has _ Hx) as [Hh Hc].
  destruct (rec u (Some (name_of_string v2 mstr)) sg) as [[u1 n1]|] eqn:E1.
  - pose proof (rec_ext' _ _ _ _ _ E1) as He.
    destruct (walk_methods v2 rec u1 ms) as [[u2 r]|] eqn:E2; [discriminate|].
    exfalso. eapply (IHl u1); eauto; [pose proof (M_ext _ _ He); lia|eapply wf_ext; eauto|eapply rec_can; eauto|]; intros; apply Hk; right; auto.
  - exfalso. eapply (IH u (Some (name_of_string v2 mstr)) sg); eauto.
    simpl. apply (Hk (mn, mstr, sg)). left; reflexivity.
Qed.

Lemma simple_ok u nm k fill : In nm allkeys -> M u <= m -> wf u -> canonical v2 u -> k <> ""%string ->
  (forall u1, M u1 + 1 <= m -> wf u1 -> canonical v2 u1 -> fill u1 <> None) ->
  simple v2 u nm k fill <> None.
Proof.
  intros Hin Hm W C Hk Hfill. unfold simple. destruct (get_or_create v2 u nm) as [u0 o0] eqn:Eg.
  destruct (get_or_create_canon _ _ _ _ _ C Eg) as [C0 Eo]. subst o0.
  pose proof (get_or_create_ext _ _ _ _ _ Eg) as E0. pose proof (wf_ext _ _ E0 W) as W0.
  destruct (complete u0 (canon v2 nm)) eqn:Ec; [discriminate|].
  destruct (W0 _ _ (get_or_create_key _ _ _ _ _ Eg)) as [e He].
  pose proof (M_decide u0 nm k e Hin Ec He Hk) as Hd. pose proof (M_ext _ _ E0) as H0.
  destruct (fill (update u0 (canon v2 nm) (set_kind k))) as [[u2 g]|] eqn:Ef; [discriminate|].
  exfalso. eapply Hfill; [| | |exact Ef]; [lia|apply wf_update; exact W0|apply update_canon; exact C0].
Qed.

(* every shape other than a defined type *)
Lemma plain_ok u use t tstr sh : plookup t p = Some (tstr, sh) -> (forall a b c d e, sh <> SNamed a b c d e) ->
  M u <= m -> wf u -> canonical v2 u -> use_ok use -> walk_step v2 p rec u use t <> None.
Proof.
  intros Ep Hnn Hm W C Hu. unfold walk_step. rewrite Ep.
  pose proof (prog_ok_node Hprog _ _ _ Ep) as Hsh.
  set (nm := match use with Some n => n | None => name_of_string v2 tstr end).
  assert (Hnm : match sh with SBasic _ => True | _ => In nm allkeys end).
  { destruct use as [n|]; simpl in Hu; [destruct sh; auto|].
    destruct sh; auto; eapply node_keys_in; eauto; simpl; auto. }
  destruct sh as [n|e|e|len e|k e|e|fs|ms|ps rs vr recv|cls under ms tps origin| |]; simpl in Hsh.
  - destruct (get_or_create v2 u ([], n)) as [u0 o0]. destruct (complete u0 o0); discriminate.
  - apply simple_ok; auto; [discriminate|]. intros u1 M1 W1 C1.
    destruct (rec u1 None e) as [[? ?]|] eqn:E; [discriminate|]. exfalso. eapply (IH u1 None e); eauto; simpl; auto.
  - apply simple_ok; auto; [discriminate|]. intros u1 M1 W1 C1.
    destruct (rec u1 None e) as [[? ?]|] eqn:E; [discriminate|]. exfalso. eapply (IH u1 None e); eauto; simpl; auto.
  - apply simple_ok; auto; [discriminate|]. intros u1 M1 W1 C1.
    destruct (rec u1 None e) as [[? ?]|] eqn:E; [discriminate|]. exfalso. eapply (IH u1 None e); eauto; simpl; auto.
  - apply andb_true_iff in Hsh. destruct Hsh as [Hk He].
    apply simple_ok; auto; [discriminate|]. intros u1 M1 W1 C1.
    destruct (rec u1 None e) as [[ua ne]|] eqn:E1; [|exfalso; eapply (IH u1 None e); eauto; simpl; auto].
    pose proof (rec_ext' _ _ _ _ _ E1) as Ea.
    destruct (rec ua None k) as [[? ?]|] eqn:E2; [discriminate|].
    exfalso. eapply (IH ua None k); eauto; simpl; auto; [pose proof (M_ext _ _ Ea); lia|eapply wf_ext; eauto|eapply rec_can; eauto].
  - apply simple_ok; auto; [discriminate|]. intros u1 M1 W1 C1.
    destruct (rec u1 None e) as [[? ?]|] eqn:E; [discriminate|]. exfalso. eapply (IH u1 None e); eauto; simpl; auto.
  - apply simple_ok; auto; [discriminate|]. intros u1 M1 W1 C1.
    destruct (walk_list rec u1 (map snd fs)) as [[? ?]|] eqn:E; [discriminate|].
    exfalso. eapply (list_ok (map snd fs) u1); eauto. rewrite forallb_map. exact Hsh.
  - apply simple_ok; auto; [discriminate|]. intros u1 M1 W1 C1.
    destruct (walk_methods v2 rec u1 ms) as [[? ?]|] eqn:E; [discriminate|].
    exfalso. eapply (methods_ok ms u1); eauto.
    intros x Hx. eapply node_keys_in; eauto. simpl. right. apply in_map. exact Hx.
  - apply andb_true_iff in Hsh. destruct Hsh as [Hsh Hrecv]. apply andb_true_iff in Hsh. destruct Hsh as [Hps Hrs].
    apply simple_ok; auto; [discriminate|]. intros u1 M1 W1 C1.
    destruct (walk_list rec u1 (map snd ps)) as [[ua pn]|] eqn:E1; [|exfalso; eapply (list_ok (map snd ps) u1); eauto; rewrite forallb_map; exact Hps].
    pose proof (walk_list_ext _ rec_ext' _ _ _ _ E1) as Ea.
    assert (Ca : canonical v2 ua) by (eapply walk_list_canon; eauto; intros; eapply walk_canonical; eauto).
    destruct (walk_list rec ua (map snd rs)) as [[ub rn]|] eqn:E2;
      [|exfalso; eapply (list_ok (map snd rs) ua); eauto; [pose proof (M_ext _ _ Ea); lia|eapply wf_ext; eauto|rewrite forallb_map; exact Hrs]].
    pose proof (walk_list_ext _ rec_ext' _ _ _ _ E2) as Eb.
    assert (Cb : canonical v2 ub) by (eapply walk_list_canon; eauto; intros; eapply walk_canonical; eauto).
    destruct recv as [r|]; [|discriminate].
    destruct (rec ub None r) as [[? ?]|] eqn:E3; [discriminate|].
    exfalso. eapply (IH ub None r); eauto; simpl; auto; [pose proof (M_ext _ _ Ea); pose proof (M_ext _ _ Eb); lia|eapply wf_ext; [exact Eb|eapply wf_ext; eauto]].
  - exfalso. eapply Hnn; reflexivity.
  - discriminate.
  - destruct (get_or_create v2 u nm) as [u0 o0]. destruct (complete u0 o0); discriminate.
Qed.
End Step.

(* ---------- a composite node decides its key ---------- *)
Lemma M_decided u u' nm : ext u u' -> In nm allkeys -> complete u (canon v2 nm) = false -> complete u' (canon v2 nm) = true -> M u' < M u.
Proof.
  intros He Hin H0 H1. unfold M. apply (filter_lt _ _ allkeys nm); auto.
  - intros x Hx. unfold undecided in *. destruct (complete u (canon v2 x)) eqn:Ec; [|reflexivity].
    rewrite (ext_complete _ _ _ He Ec) in Hx. discriminate.
  - unfold undecided. rewrite H0. reflexivity.
  - unfold undecided. rewrite H1. reflexivity.
Qed.

Lemma simple_decides (f : nat) u nm k fill u' o : wf u -> canonical v2 u -> k <> ""%string ->
  (forall u1 u2 g, fill u1 = Some (u2, g) -> ext u1 u2 /\ keeps_kind g) ->
  simple v2 u nm k fill = Some (u', o) -> ext u u' /\ complete u' (canon v2 nm) = true.
Proof.
  intros W C Hk Hf H. destruct (simple_inv v2 u nm k fill u' o Hk Hf H) as (u0 & Eg & He & Hd).
  destruct (get_or_create_canon _ _ _ _ _ C Eg) as [C0 Eo]. subst o.
  pose proof (get_or_create_ext _ _ _ _ _ Eg) as E0. pose proof (wf_ext _ _ E0 W) as W0.
  split; [eapply ext_trans; eauto|]. destruct Hd as [Hd|Hd]; [eapply ext_complete; eauto|].
  destruct (W0 _ _ (get_or_create_key _ _ _ _ _ Eg)) as [e He0]. eapply complete_kind; [exact Hk|eauto].
Qed.

Lemma composite_decides f u use t tstr sh u' o : plookup t p = Some (tstr, sh) -> composite sh = true ->
  wf u -> canonical v2 u ->
  walk_step v2 p (walk v2 p f) u use t = Some (u', o) ->
  let nm := match use with Some n => n | None => name_of_string v2 tstr end in
  ext u u' /\ complete u' (canon v2 nm) = true.
Proof.
  intros Ep Hc W C H nm. unfold walk_step in H. rewrite Ep in H. fold nm in H.
  assert (Hrec : forall u use t u' o, walk v2 p f u use t = Some (u', o) -> ext u u') by (intros; eapply walk_ext; eauto).
  assert (Hgen : forall k fill, k <> ""%string -> (forall u1 u2 g, fill u1 = Some (u2, g) -> ext u1 u2 /\ keeps_kind g) ->
                 simple v2 u nm k fill = Some (u', o) -> ext u u' /\ complete u' (canon v2 nm) = true).
  { intros k fill Hk Hf Hs. eapply (simple_decides f); eauto. }
  destruct sh as [n|e|e|len e|k e|e|fs|ms|ps rs vr recv|cls under ms tps origin| |]; try discriminate.
  9: { destruct (get_or_create v2 u nm) as [u0 o0] eqn:Eg.
       destruct (get_or_create_canon _ _ _ _ _ C Eg) as [C0 Eo]. subst o0.
       pose proof (get_or_create_ext _ _ _ _ _ Eg) as E0. pose proof (wf_ext _ _ E0 W) as W0.
       destruct (complete u0 (canon v2 nm)) eqn:Ec; inversion H; subst; [split; auto|].
       destruct (W0 _ _ (get_or_create_key _ _ _ _ _ Eg)) as [e0 He0]. split.
       - eapply ext_trans; [exact E0|apply update_set_kind_ext; exact Ec].
       - eapply (complete_kind _ _ "Unsupported"%string); [discriminate|eapply update_set_kind_kind; eauto]. }
  all: eapply Hgen; [| |exact H]; [discriminate|].
  all: intros u1 u2 g Hfill; cbv beta in Hfill.
  all: try (eapply fill_map; eauto; fail).
  all: try (eapply fill_struct; eauto; fail).
  all: try (eapply fill_iface; eauto; fail).
  all: try (eapply fill_func; eauto; fail).
  all: match type of Hfill with
       | match walk ?vv ?pp ?ff ?a ?b ?c with _ => _ end = _ =>
           let E := fresh "E" in destruct (walk vv pp ff a b c) as [[? ?]|] eqn:E; [|discriminate];
           inversion Hfill; subst; split; [eapply Hrec; eauto | auto with kk]
       end.
Qed.

Lemma tparam_walk f u use t : canonical v2 u -> is_tparam t = true ->
  exists u' nm, walk v2 p (S f) u use t = Some (u', nm) /\ ext u u' /\ canonical v2 u'.
Proof.
  intros C H. assert (G : walk v2 p (S f) u use t <> None).
  { unfold Universe.is_tparam in H. simpl. unfold walk_step. destruct (plookup t p) as [[ts sh]|]; [|discriminate].
    destruct sh as [n| | | | | |[|? ?]|[|? ?]| | | |]; try discriminate.
    - destruct (get_or_create v2 u ([], n)) as [u0 o0]. destruct (complete u0 o0); discriminate.
    - unfold simple. destruct (get_or_create v2 u _) as [u0 o0]. destruct (complete u0 o0); discriminate.
    - unfold simple. destruct (get_or_create v2 u _) as [u0 o0]. destruct (complete u0 o0); discriminate.
    - destruct (get_or_create v2 u _) as [u0 o0]. destruct (complete u0 o0); discriminate. }
  destruct (walk v2 p (S f) u use t) as [[u' nm]|] eqn:E; [|congruence]. exists u', nm. split; [reflexivity|].
  split; [eapply walk_ext; eauto|]. destruct (walk_canonical v2 p Hnamed _ _ _ _ _ _ C E); auto.
Qed.
Lemma tparams_walk f : forall (tps : list (str * N)) u, canonical v2 u -> forallb (fun a => is_tparam (snd a)) tps = true ->
  exists u' ns, walk_list (walk v2 p (S f)) u (map snd tps) = Some (u', ns) /\ ext u u' /\ canonical v2 u'.
Proof.
  induction tps as [|a tps IHl]; intros u C H; [exists u, []; split; [reflexivity|split; [apply ext_refl|exact C]]|].
  simpl in H. apply andb_true_iff in H. destruct H as [Ha Hl].
  destruct (tparam_walk f u None (snd a) C Ha) as (u1 & nm & E & X1 & C1). destruct (IHl u1 C1 Hl) as (u2 & ns & E2 & X2 & C2).
  exists u2, (nm :: ns). cbn [map walk_list]. rewrite E, E2. split; [reflexivity|]. split; [eapply ext_trans; eauto|exact C2].
Qed.

Lemma attach_ok f m r ms : (forall u o, r = Some (u, o) -> M u + 1 <= m /\ wf u /\ canonical v2 u) ->
  (forall u use t, M u + 1 <= m -> wf u -> canonical v2 u -> has t = true -> use_ok use ->
     (match use with Some _ => match plookup t p with Some (_, sh) => composite sh = true | None => True end | None => True end) ->
     walk v2 p f u use t <> None) ->
  forallb (fun x : str * str * N => is_func (snd x)) ms = true -> (forall x, In x ms -> In (mkey x) allkeys) ->
  r <> None -> attach v2 (walk v2 p f) r ms <> None.
Proof.
  intros Hr IHf Hms Hk Hn. unfold attach. destruct r as [[u1 o1]|]; [|congruence]. destruct (Hr _ _ eq_refl) as (M1 & W1 & C1).
  destruct (nlookup o1 (objs u1)) as [e|]; [|discriminate]. destruct (e_methods e); [|discriminate].
  destruct (walk_methods v2 (walk v2 p f) u1 ms) as [[? ?]|] eqn:E; [discriminate|].
  exfalso. eapply (methods_ok m f); eauto.
Qed.

(* ---------- the theorem ---------- *)
Theorem walk_terminates : forall m, terminates m.
Proof.
  induction m as [m IHm] using lt_wf_ind. unfold terminates. intros f u use t Hm Hf W C Ht Hu Hcomp.
  destruct f as [|f]; [lia|]. simpl.
  (* children at budget f (and at budget f - 1) in universes with fewer undecided keys *)
  assert (IHf : forall f0, 2 * m <= f0 -> forall u use t, M u + 1 <= m -> wf u -> canonical v2 u -> has t = true -> use_ok use ->
     (match use with Some _ => match plookup t p with Some (_, sh) => composite sh = true | None => True end | None => True end) ->
     walk v2 p f0 u use t <> None).
  { intros f0 Hf0 u0 use0 t0 M0 W0 C0 H0 U0 K0. apply (IHm (m - 1)); auto; lia. }
  unfold has in Ht. destruct (plookup t p) as [[tstr sh]|] eqn:Ep; [|discriminate].
  destruct sh as [n|e|e|len e|k e|e|fs|ms|ps rs vr recv|cls under ms tps origin| |] eqn:Esh.
  10: {
    (* a defined type *)
    destruct use as [n|]; [simpl in Hcomp; discriminate|]. clear Hcomp.
    pose proof (prog_ok_node Hprog _ _ _ Ep) as Hsh. simpl in Hsh.
    repeat (apply andb_true_iff in Hsh; destruct Hsh as [Hsh ?]).
    rename H into Horigin, H0 into Htps, H1 into Hms. rename Hsh into Hunder.
    pose proof (Hnamed _ _ _ _ _ _ _ Ep) as Hn.
    assert (Kn0 : In (name_of_string v2 tstr) allkeys) by (eapply node_keys_in; eauto; simpl; auto).
    assert (Kg : In (gen_name tps (name_of_string v2 tstr)) allkeys) by (eapply node_keys_in; eauto; simpl; auto).
    assert (Kms : forall x, In x ms -> In (mkey x) allkeys) by (intros x Hx; eapply node_keys_in; eauto; simpl; right; right; apply in_map; exact Hx).
    unfold walk_step. rewrite Ep. destruct (N.eqb cls 0) eqn:E0.
    { (* alias of a basic / map / slice type *)
      destruct (get_or_create v2 u (name_of_string v2 tstr)) as [u0 o0] eqn:Eg.
      destruct (get_or_create_canon _ _ _ _ _ C Eg) as [C0 Eo]. subst o0.
      pose proof (get_or_create_ext _ _ _ _ _ Eg) as Ex0. pose proof (wf_ext _ _ Ex0 W) as W0. pose proof (M_ext _ _ Ex0) as Mx0.
      destruct (complete u0 (canon v2 (name_of_string v2 tstr))) eqn:Ec; [discriminate|].
      destruct (W0 _ _ (get_or_create_key _ _ _ _ _ Eg)) as [e0 He0].
      pose proof (M_decide u0 _ "Alias"%string e0 Kn0 Ec He0 ltac:(discriminate)) as Hd.
      set (u1 := update u0 (canon v2 (name_of_string v2 tstr)) (set_kind "Alias")) in *.
      assert (W1 : wf u1) by (apply wf_update; exact W0). assert (C1 : canonical v2 u1) by (apply update_canon; exact C0).
      destruct (walk v2 p f u1 None under) as [[u2 nu]|] eqn:E1;
        [|exfalso; eapply (IHf f ltac:(lia) u1 None under); eauto; try lia; simpl; auto].
      apply (attach_ok f m); auto; [|apply IHf; lia|discriminate].
      intros ux ox Hx. injection Hx as <- <-. pose proof (walk_ext _ _ _ _ _ _ _ _ E1) as Ex2.
      split; [|split].
      - pose proof (M_ext _ _ Ex2). pose proof (M_ext _ _ (update_ext u2 (canon v2 (name_of_string v2 tstr)) (with_under nu) (kk_under nu))). lia.
      - apply wf_update. eapply wf_ext; eauto.
      - apply update_canon. destruct (walk_canonical v2 p Hnamed _ _ _ _ _ _ C1 E1); auto. }
    specialize (Hn eq_refl). cbv zeta in Hn.
    destruct f as [|f']; [lia|].
    destruct (N.eqb cls 1 && v2) eqn:E1.
    { (* a generic declaration (v2) *)
      destruct (match origin with
                | Some og => match plookup og p with Some (_, SNamed _ u'0 m' _ _) => (u'0, m') | _ => (under, ms) end
                | None => (under, ms) end) as [under' ms'] eqn:Eu.
      assert (Hu' : under' = match origin with
                    | Some og => match plookup og p with Some (_, SNamed _ u'0 _ _ _) => u'0 | _ => under end
                    | None => under end).
      { destruct origin as [og|]; [|inversion Eu; reflexivity]. destruct (plookup og p) as [[? [| | | | | | | | |? ? ? ? ?| |]]|]; inversion Eu; reflexivity. }
      assert (Hms' : forallb (fun x : str * str * N => is_func (snd x)) ms' = true /\ (forall x, In x ms' -> In (mkey x) allkeys)).
      { destruct origin as [og|]; [|inversion Eu; subst; auto].
        destruct (plookup og p) as [[ts' sh']|] eqn:Eog; [|inversion Eu; subst; auto].
        destruct sh'; inversion Eu; subst; auto.
        apply andb_true_iff in Horigin. destruct Horigin as [_ Hm']. split; [exact Hm'|].
        intros x Hx. eapply node_keys_in; [exact Eog|]. simpl. right. right. apply in_map. exact Hx. }
      destruct Hms' as [Hms'1 Hms'2].
      destruct Hn as (ts & shu & Hpu & Hcu). rewrite <- Hu' in Hpu.
      destruct (tparams_walk f' tps u C Htps) as (ut & tpn & Et & Xt & Ct). rewrite Et.
      pose proof (wf_ext _ _ Xt W) as Wt. pose proof (M_ext _ _ Xt) as Mt.
      fold (gen_name tps (name_of_string v2 tstr)).
      destruct (get_or_create v2 ut (gen_name tps (name_of_string v2 tstr))) as [u0 o0] eqn:Eg.
      destruct (get_or_create_canon _ _ _ _ _ Ct Eg) as [C0 Eo]. subst o0.
      pose proof (get_or_create_ext _ _ _ _ _ Eg) as Ex0. pose proof (wf_ext _ _ Ex0 Wt) as W0. pose proof (M_ext _ _ Ex0) as Mx0.
      destruct (complete u0 (canon v2 (gen_name tps (name_of_string v2 tstr)))) eqn:Ec; [discriminate|].
      assert (Hstep : walk v2 p (S f') u0 (Some (gen_name tps (name_of_string v2 tstr))) under' <> None).
      { simpl. eapply (plain_ok m f'); eauto; try (apply IHf; lia); try lia; try (simpl; auto; fail).
        intros a b c d e0 Hc0. subst shu. discriminate. }
      destruct (walk v2 p (S f') u0 (Some (gen_name tps (name_of_string v2 tstr))) under') as [[u1 o1]|] eqn:Er; [|congruence].
      simpl in Er. destruct (composite_decides f' u0 _ under' ts shu u1 o1 Hpu Hcu W0 C0 Er) as [Ex1 Hdone].
      pose proof (M_decided u0 u1 _ Ex1 Kg Ec Hdone) as Hlt.
      apply (attach_ok (S f') m); auto; [|apply IHf; lia|discriminate].
      intros ux ox Hx. injection Hx as <- <-. split; [|split].
      - pose proof (M_ext _ _ (update_ext u1 o1 (with_tparams (combine (map fst tps) tpn)) (kk_tparams _))). lia.
      - apply wf_update. eapply wf_ext; eauto.
      - apply update_canon. assert (Er' : walk v2 p (S f') u0 (Some (gen_name tps (name_of_string v2 tstr))) under' = Some (u1, o1)) by exact Er.
        destruct (walk_canonical v2 p Hnamed _ _ _ _ _ _ C0 Er'); auto. }
    (* an ordinary defined type *)
    destruct Hn as (ts & shu & Hpu & Hcu).
    destruct (get_or_create v2 u (name_of_string v2 tstr)) as [u0 o0] eqn:Eg.
    destruct (get_or_create_canon _ _ _ _ _ C Eg) as [C0 Eo]. subst o0.
    pose proof (get_or_create_ext _ _ _ _ _ Eg) as Ex0. pose proof (wf_ext _ _ Ex0 W) as W0. pose proof (M_ext _ _ Ex0) as Mx0.
    destruct (complete u0 (canon v2 (name_of_string v2 tstr))) eqn:Ec; [discriminate|].
    assert (Hstep : walk v2 p (S f') u0 (Some (name_of_string v2 tstr)) under <> None).
    { simpl. eapply (plain_ok m f'); eauto; try (apply IHf; lia); try lia; try (simpl; auto; fail).
      intros a b c d e0 Hc0. subst shu. discriminate. }
    destruct (walk v2 p (S f') u0 (Some (name_of_string v2 tstr)) under) as [[u1 o1]|] eqn:Er; [|congruence].
    simpl in Er. destruct (composite_decides f' u0 _ under ts shu u1 o1 Hpu Hcu W0 C0 Er) as [Ex1 Hdone].
    pose proof (M_decided u0 u1 _ Ex1 Kn0 Ec Hdone) as Hlt.
    apply (attach_ok (S f') m); auto; try (apply IHf; lia); try discriminate.
    intros ux ox Hx. injection Hx as <- <-. split; [lia|]. split; [eapply wf_ext; eauto|].
    assert (Er' : walk v2 p (S f') u0 (Some (name_of_string v2 tstr)) under = Some (u1, o1)) by exact Er.
    destruct (walk_canonical v2 p Hnamed _ _ _ _ _ _ C0 Er'); auto. }
  all: eapply (plain_ok m f); eauto; try (apply IHf; lia); intros; discriminate.
Qed.
End Term.

(* ---------- consequences ---------- *)
Lemma M_le_keys v2 p u : M v2 p u <= length (allkeys v2 p).
Proof. unfold M. induction (allkeys v2 p) as [|k l IH]; simpl; [lia|]. destruct (undecided v2 u k); simpl; lia. Qed.

(* the budget the model runs with is always enough *)
Theorem walk_never_out_of_budget v2 p : prog_okb p = true -> named_ok v2 p ->
  forall f u t, 2 * length (allkeys v2 p) + 2 <= f -> wf u -> canonical v2 u -> has p t = true ->
  walk v2 p f u None t <> None.
Proof.
  intros Hp Hn f u t Hf W C Ht.
  apply (walk_terminates v2 p Hp Hn (length (allkeys v2 p)) f u None t); simpl; auto. apply M_le_keys.
Qed.


Lemma add_obj_total v2 p f w o : prog_okb p = true -> named_ok v2 p -> 2 * length (allkeys v2 p) + 2 <= f ->
  wf (w_u w) -> canonical v2 (w_u w) -> has p (obj_node o) = true -> add_obj v2 p f (Some w) o <> None.
Proof.
  intros Hp Hn Hf W C Ho. unfold add_obj. destruct o as [t|ostr sg|ostr ty|ostr ty v]; simpl in Ho.
  all: match goal with |- match walk ?vv ?pp ?ff ?a ?b ?c with _ => _ end <> None =>
         let E := fresh "E" in destruct (walk vv pp ff a b c) as [[u1 n1]|] eqn:E; [discriminate|];
         exfalso; eapply (walk_never_out_of_budget v2 p Hp Hn); eauto end.
Qed.

Theorem load_total v2 p f : prog_okb p = true -> named_ok v2 p -> 2 * length (allkeys v2 p) + 2 <= f ->
  forall gs w, wf (w_u w) -> canonical v2 (w_u w) ->
  (forall g o, In g gs -> In o (g_scope g) -> has p (obj_node o) = true) ->
  fold_left (add_package v2 p f) gs (Some w) <> None.
Proof.
  intros Hp Hn Hf. induction gs as [|g gs IH]; intros w W C Hs; cbn [fold_left]; [discriminate|].
  assert (Hpk : exists w1, add_package v2 p f (Some w) g = Some w1 /\ wf (w_u w1) /\ canonical v2 (w_u w1)).
  { unfold add_package.
    match goal with |- exists w1, match fold_left _ _ (Some ?w0) with _ => _ end = _ /\ _ => set (w0' := w0) end.
    assert (Hobjs : forall l w2, wf (w_u w2) -> canonical v2 (w_u w2) -> (forall o, In o l -> has p (obj_node o) = true) ->
              exists w3, fold_left (add_obj v2 p f) l (Some w2) = Some w3 /\ wf (w_u w3) /\ canonical v2 (w_u w3)).
    { induction l as [|o l IHl]; intros w2 W2 C2 Hl; cbn [fold_left]; [eauto|].
      destruct (add_obj v2 p f (Some w2) o) as [w3|] eqn:Eo; [|exfalso; eapply (add_obj_total v2 p f w2 o); eauto; apply Hl; left; reflexivity].
      apply IHl; [eapply wf_ext; [eapply add_obj_ext; eauto|exact W2]|eapply add_obj_canon; eauto|intros; apply Hl; right; auto]. }
    destruct (Hobjs (g_scope g) w0') as (w3 & E3 & W3 & C3); [exact W|exact C|intros o Ho; apply (Hs g o); [left; reflexivity|exact Ho]|].
    rewrite E3. eexists. split; [reflexivity|]. rewrite upd_pkg_u, fold_get_pkg_u. auto. }
  destruct Hpk as (w1 & E1 & W1 & C1). rewrite E1. apply IH; auto. intros g0 o Hg Ho. apply (Hs g0 o); [right; exact Hg|exact Ho].
Qed.
