(* C11: the whole entry of a defined type over a struct, interface, function, ... type (the branch of
   walkType that walks the underlying type under the defined type's own name and then attaches the
   declared methods) is determined by the node table as well. *)
Require Import Gengo.Base.Str Gengo.Base.Sexp Gengo.Base.StrOrder Gengo.Model.Universe
               Gengo.Proofs.UniverseProofs Gengo.Proofs.CanonProofs Gengo.Proofs.FaithfulProofs Gengo.Proofs.FrameProofs
               Gengo.Proofs.IndepProofs Gengo.Proofs.MethodsProofs Gengo.Proofs.TerminationProofs Gengo.Proofs.ExactProofs.

Section Named.
Variable v2 : bool.
Variable p : prog.
Hypothesis Hok : named_ok v2 p.

Lemma rec_inv'' ff : forall u use t u' o, canonical v2 u -> walk v2 p ff u use t = Some (u', o) ->
  (canonical v2 u' /\ forall k, node_key v2 p use t = Some k -> o = canon v2 k) /\ frame u u'.
Proof. intros u use t u' o C H. split; [eapply walk_canonical; eauto|eapply walk_frame; eauto]. Qed.

Lemma winv_goc u n u0 o : winv' v2 u -> get_or_create v2 u n = (u0, o) -> winv' v2 u0.
Proof.
  intros (W & C & P) Eg. split; [exact (wf_ext _ _ (get_or_create_ext _ _ _ _ _ Eg) W)|].
  split; [destruct (get_or_create_canon _ _ _ _ _ C Eg); auto|eapply get_or_create_pristine; eauto].
Qed.

(* attach on the same decided entry, in two universes: same result entry *)
Lemma attach_same f1 f2 ua ub o e ms ua' ub' oa ob :
  canonical v2 ua -> canonical v2 ub ->
  nlookup o (objs ua) = Some e -> nlookup o (objs ub) = Some e -> e_kind e <> [] ->
  Forall (fun m => keyed v2 p (Some (name_of_string v2 (snd (fst m)))) (snd m)) ms ->
  attach v2 (walk v2 p f1) (Some (ua, o)) ms = Some (ua', oa) -> attach v2 (walk v2 p f2) (Some (ub, o)) ms = Some (ub', ob) ->
  oa = ob /\ exists e', nlookup oa (objs ua') = Some e' /\ nlookup ob (objs ub') = Some e'.
Proof.
  intros Ca Cb La Lb Hk Hm. unfold attach. rewrite La, Lb.
  destruct (e_methods e) eqn:Em.
  - destruct (walk_methods v2 (walk v2 p f1) ua ms) as [[xa ra]|] eqn:Ra; [|discriminate].
    destruct (walk_methods v2 (walk v2 p f2) ub ms) as [[xb rb]|] eqn:Rb; [|discriminate].
    intros H1 H2. injection H1 as <- <-. injection H2 as <- <-. split; [reflexivity|].
    destruct (walk_methods_frame v2 p _ (rec_inv'' f1) _ _ _ _ Ca Ra) as [_ Fa].
    destruct (walk_methods_frame v2 p _ (rec_inv'' f2) _ _ _ _ Cb Rb) as [_ Fb].
    destruct (walk_methods_names v2 p Hok f1 _ _ _ _ Ca Ra) as [_ Na].
    destruct (walk_methods_names v2 p Hok f2 _ _ _ _ Cb Rb) as [_ Nb].
    assert (ra = rb) by (eapply (methods_unique v2 p); eauto). subst rb.
    exists (with_methods ra e). split; apply update_lookup_same; [apply Fa|apply Fb]; assumption.
  - intros H1 H2. injection H1 as <- <-. injection H2 as <- <-. split; [reflexivity|]. exists e. split; assumption.
Qed.

Theorem named_composite_entry_independent f1 f2 u1 u2 use1 use2 t tstr cls under ms tps origin ts sh u1' u2' o1 o2 :
  winv' v2 u1 -> winv' v2 u2 ->
  plookup t p = Some (tstr, SNamed cls under ms tps origin) -> N.eqb cls 0 = false -> (N.eqb cls 1 && v2) = false ->
  plookup under p = Some (ts, sh) -> children_keyed v2 p sh ->
  Forall (fun m => keyed v2 p (Some (name_of_string v2 (snd (fst m)))) (snd m)) ms ->
  fresh v2 u1 (name_of_string v2 tstr) -> fresh v2 u2 (name_of_string v2 tstr) ->
  walk v2 p (S f1) u1 use1 t = Some (u1', o1) -> walk v2 p (S f2) u2 use2 t = Some (u2', o2) ->
  o1 = o2 /\ exists e, nlookup o1 (objs u1') = Some e /\ nlookup o2 (objs u2') = Some e.
Proof.
  intros I1 I2 Ep Ec0 Ec1 Eu Hkeys Hm F1 F2 H1 H2. unfold fresh in F1, F2.
  simpl in H1, H2. unfold walk_step in H1, H2. rewrite Ep in H1, H2. rewrite Ec0, Ec1 in H1, H2.
  set (n0 := name_of_string v2 tstr) in *.
  destruct (get_or_create v2 u1 n0) as [ua oa] eqn:Eg1. destruct (get_or_create v2 u2 n0) as [ub ob] eqn:Eg2. simpl in F1, F2.
  rewrite F1 in H1. rewrite F2 in H2.
  pose proof (winv_goc _ _ _ _ I1 Eg1) as Ia. pose proof (winv_goc _ _ _ _ I2 Eg2) as Ib.
  destruct (walk v2 p f1 ua (Some n0) under) as [[xa pa]|] eqn:Ra; [|discriminate].
  destruct (walk v2 p f2 ub (Some n0) under) as [[xb pb]|] eqn:Rb; [|discriminate].
  destruct f1 as [|g1]; [discriminate|]. destruct f2 as [|g2]; [discriminate|].
  assert (Fa : fresh v2 ua n0) by (unfold fresh; rewrite (get_or_create_idem _ _ _ _ _ Eg1); exact F1).
  assert (Fb : fresh v2 ub n0) by (unfold fresh; rewrite (get_or_create_idem _ _ _ _ _ Eg2); exact F2).
  destruct (composite_entry_independent v2 p Hok g1 g2 ua ub (Some n0) under ts sh xa xb pa pb Ia Ib Eu Hkeys Fa Fb Ra Rb) as (Eo & e & La & Lb).
  subst pb.
  assert (Hcomp : composite sh = true) by (destruct sh; try contradiction; reflexivity).
  destruct Ia as (Wa & Ca & _). destruct Ib as (Wb & Cb & _).
  destruct (walk_canonical v2 p Hok _ _ _ _ _ _ Ca Ra) as [Cxa Ka]. destruct (walk_canonical v2 p Hok _ _ _ _ _ _ Cb Rb) as [Cxb _].
  assert (Epa : pa = canon v2 n0).
  { apply Ka. unfold node_key. rewrite Eu. destruct sh; try discriminate; reflexivity. }
  simpl in Ra. destruct (composite_decides v2 p g1 _ _ _ _ _ _ _ Eu Hcomp Wa Ca Ra) as [_ Da]. rewrite <- Epa in Da.
  assert (Hk : e_kind e <> []).
  { unfold complete, kind_of in Da. rewrite La in Da. destruct (str_eqb_spec (e_kind e) []) as [E|]; [discriminate|assumption]. }
  exact (attach_same _ _ _ _ _ _ _ _ _ _ _ Cxa Cxb La Lb Hk Hm H1 H2).
Qed.
End Named.
