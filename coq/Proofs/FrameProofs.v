(* C06 / C11: an entry whose kind has been decided is never touched by a later walk -- not its kind
   (that is [ext]) and none of its other fields either.  Only the walk that decided an entry fills it
   in.  Consequence: what a defined type's entry records (underlying type, methods) is what the walk
   that first reached it computed, whatever is loaded afterwards. *)
Require Import Gengo.Base.Str Gengo.Base.Sexp Gengo.Base.StrOrder Gengo.Model.Universe
               Gengo.Proofs.UniverseProofs Gengo.Proofs.CanonProofs.

Definition frame (u u' : univ) : Prop :=
  forall o e, nlookup o (objs u) = Some e -> e_kind e <> [] -> nlookup o (objs u') = Some e.

Lemma frame_refl u : frame u u.
Proof. intros o e H _. exact H. Qed.
Lemma frame_trans a b c : frame a b -> frame b c -> frame a c.
Proof. intros H1 H2 o e L K. apply H2; [apply H1; assumption|exact K]. Qed.

Lemma complete_false_kind u o e : complete u o = false -> nlookup o (objs u) = Some e -> e_kind e = [].
Proof.
  unfold complete, kind_of. intros Hc L. rewrite L in Hc.
  destruct (str_eqb_spec (e_kind e) []) as [E|]; [exact E|discriminate].
Qed.

Lemma get_or_create_frame v2 u n u1 o : get_or_create v2 u n = (u1, o) -> frame u u1.
Proof.
  unfold get_or_create. destruct (nlookup n (tkeys u)) as [o0|].
  - intros H; inversion H; subst. apply frame_refl.
  - destruct (if str_eqb (fst n) [] then builtin_of v2 (snd n) else None) as [[bn bk]|];
      intros H; injection H as <- <-; intros o' e L K; simpl;
      match goal with |- nlookup _ (match nlookup ?ob _ with _ => _ end) = _ =>
        destruct (nlookup ob (objs u)) eqn:Eo; [exact L|];
        destruct (name_eqb_spec o' ob) as [->|Hne]; [congruence|rewrite nlookup_nset_other by exact Hne; exact L] end.
Qed.

Lemma update_other u o g o' : o' <> o -> nlookup o' (objs (update u o g)) = nlookup o' (objs u).
Proof.
  intros Hne. unfold update. destruct (nlookup o (objs u)); [|reflexivity]. simpl. apply nlookup_nset_other. exact Hne.
Qed.

(* filling in an entry that was undecided in the base universe keeps the frame of the base *)
Lemma frame_update_other a b o g : frame a b -> complete a o = false -> frame a (update b o g).
Proof.
  intros F Hc o' e L K. destruct (name_eqb_spec o' o) as [->|Hne].
  - exfalso. apply K. exact (complete_false_kind _ _ _ Hc L).
  - rewrite update_other by exact Hne. apply F; assumption.
Qed.
Lemma update_frame u o g : complete u o = false -> frame u (update u o g).
Proof. intros Hc. apply frame_update_other; [apply frame_refl|exact Hc]. Qed.

Section Frame.
Variable v2 : bool.
Variable p : prog.
Hypothesis Hok : named_ok v2 p.
Variable rec : univ -> option name -> N -> option (univ * name).
Hypothesis rec_inv : forall u use t u' o, canonical v2 u -> rec u use t = Some (u', o) ->
  (canonical v2 u' /\ forall k, node_key v2 p use t = Some k -> o = canon v2 k) /\ frame u u'.

Lemma rec_canon : forall u use t u' o, canonical v2 u -> rec u use t = Some (u', o) ->
  canonical v2 u' /\ forall k, node_key v2 p use t = Some k -> o = canon v2 k.
Proof. intros u use t u' o C H. exact (proj1 (rec_inv _ _ _ _ _ C H)). Qed.
Lemma rec_frame : forall u use t u' o, canonical v2 u -> rec u use t = Some (u', o) -> frame u u'.
Proof. intros u use t u' o C H. exact (proj2 (rec_inv _ _ _ _ _ C H)). Qed.

Lemma walk_list_frame : forall l u u' ns, canonical v2 u -> walk_list rec u l = Some (u', ns) -> canonical v2 u' /\ frame u u'.
Proof.
  induction l as [|x l IH]; intros u u' ns Hc H; simpl in H.
  - inversion H; subst. split; [exact Hc|apply frame_refl].
  - destruct (rec u None x) as [[u1 n1]|] eqn:E1; [|discriminate].
    destruct (walk_list rec u1 l) as [[u2 ns2]|] eqn:E2; [|discriminate]. inversion H; subst.
    destruct (rec_canon _ _ _ _ _ Hc E1) as [C1 _]. destruct (IH _ _ _ C1 E2) as [C2 F2].
    split; [exact C2|]. eapply frame_trans; [eapply rec_frame; eauto|exact F2].
Qed.
Lemma walk_methods_frame : forall ms u u' r, canonical v2 u -> walk_methods v2 rec u ms = Some (u', r) -> canonical v2 u' /\ frame u u'.
Proof.
  induction ms as [|[[mn mstr] sg] ms IH]; intros u u' r Hc H; simpl in H.
  - inversion H; subst. split; [exact Hc|apply frame_refl].
  - destruct (rec u (Some (name_of_string v2 mstr)) sg) as [[u1 n1]|] eqn:E1; [|discriminate].
    destruct (walk_methods v2 rec u1 ms) as [[u2 r2]|] eqn:E2; [|discriminate]. inversion H; subst.
    destruct (rec_canon _ _ _ _ _ Hc E1) as [C1 _]. destruct (IH _ _ _ C1 E2) as [C2 F2].
    split; [exact C2|]. eapply frame_trans; [eapply rec_frame; eauto|exact F2].
Qed.

Lemma simple_frame u nm k fill u' o : canonical v2 u ->
  (forall u1 u2 g, canonical v2 u1 -> fill u1 = Some (u2, g) -> frame u1 u2) ->
  simple v2 u nm k fill = Some (u', o) -> frame u u'.
Proof.
  intros Hc Hf. unfold simple. destruct (get_or_create v2 u nm) as [u0 o0] eqn:Eg.
  pose proof (get_or_create_frame _ _ _ _ _ Eg) as F0.
  destruct (get_or_create_canon _ _ _ _ _ Hc Eg) as [C0 _].
  destruct (complete u0 o0) eqn:Ec; [intros H; inversion H; subst; exact F0|].
  destruct (fill (update u0 o0 (set_kind k))) as [[u2 g]|] eqn:Ef; [|discriminate].
  intros H; inversion H; subst. eapply frame_trans; [exact F0|].
  apply frame_update_other; [|exact Ec].
  eapply frame_trans; [apply update_frame, Ec|]. eapply Hf; [|exact Ef]. apply update_canon, C0.
Qed.

(* attach, relative to a base universe in which the entry was still undecided *)
Lemma attach_frame a u1 o ms u' o' : canonical v2 u1 -> frame a u1 -> complete a o = false ->
  attach v2 rec (Some (u1, o)) ms = Some (u', o') -> frame a u'.
Proof.
  intros C1 F Hc. unfold attach.
  destruct (nlookup o (objs u1)) as [e|]; [|intros H; inversion H; subst; exact F].
  destruct (e_methods e); [|intros H; inversion H; subst; exact F].
  destruct (walk_methods v2 rec u1 ms) as [[u2 r2]|] eqn:Em; [|discriminate].
  intros H; inversion H; subst. apply frame_update_other; [|exact Hc].
  eapply frame_trans; [exact F|]. eapply walk_methods_frame; eauto.
Qed.

Ltac one_child :=
  let u1 := fresh "u1" in let u2 := fresh "u2" in let g := fresh "g" in let C := fresh "C" in let H := fresh "H" in
  intros u1 u2 g C H; cbv beta in H;
  match type of H with
  | match rec ?a ?b ?c with _ => _ end = _ =>
      let E := fresh "E" in destruct (rec a b c) as [[? ?]|] eqn:E; [|discriminate];
      inversion H; subst; eapply rec_frame; eauto
  end.

Lemma walk_step_frame u use t u' o : canonical v2 u -> walk_step v2 p rec u use t = Some (u', o) -> frame u u'.
Proof.
  intros Hc. unfold walk_step. destruct (plookup t p) as [[tstr sh]|] eqn:Ep; [|discriminate].
  set (nm := match use with Some n => n | None => name_of_string v2 tstr end). clearbody nm.
  destruct sh as [n|e|e|len e|k e|e|fs|ms|ps rs vr recv|cls under ms tps origin| |].
  - destruct (get_or_create v2 u ([], n)) as [u0 o0] eqn:Eg. pose proof (get_or_create_frame _ _ _ _ _ Eg) as F0.
    destruct (complete u0 o0) eqn:Ec; intros H; inversion H; subst; [exact F0|].
    eapply frame_trans; [exact F0|apply update_frame, Ec].
  - apply simple_frame; [exact Hc|one_child].
  - apply simple_frame; [exact Hc|one_child].
  - apply simple_frame; [exact Hc|one_child].
  - apply simple_frame; [exact Hc|]. intros u1 u2 g C H. cbv beta in H.
    destruct (rec u1 None e) as [[ua ne]|] eqn:E1; [|discriminate].
    destruct (rec ua None k) as [[ub nk]|] eqn:E2; [|discriminate]. inversion H; subst.
    destruct (rec_canon _ _ _ _ _ C E1) as [Ca _].
    eapply frame_trans; eapply rec_frame; eauto.
  - apply simple_frame; [exact Hc|one_child].
  - apply simple_frame; [exact Hc|]. intros u1 u2 g C H. cbv beta in H.
    destruct (walk_list rec u1 (map snd fs)) as [[ua ns]|] eqn:E1; [|discriminate].
    inversion H; subst. eapply walk_list_frame; eauto.
  - apply simple_frame; [exact Hc|]. intros u1 u2 g C H. cbv beta in H.
    destruct (walk_methods v2 rec u1 ms) as [[ua r]|] eqn:E1; [|discriminate].
    inversion H; subst. eapply walk_methods_frame; eauto.
  - apply simple_frame; [exact Hc|]. intros u1 u2 g C H. cbv beta in H.
    destruct (walk_list rec u1 (map snd ps)) as [[ua pn]|] eqn:E1; [|discriminate].
    destruct (walk_list rec ua (map snd rs)) as [[ub rn]|] eqn:E2; [|discriminate].
    destruct (walk_list_frame _ _ _ _ C E1) as [Ca Fa]. destruct (walk_list_frame _ _ _ _ Ca E2) as [Cb Fb].
    destruct recv as [r|].
    + destruct (rec ub None r) as [[uc n]|] eqn:E3; [|discriminate]. inversion H; subst.
      eapply frame_trans; [exact Fa|]. eapply frame_trans; [exact Fb|]. eapply rec_frame; eauto.
    + inversion H; subst. eapply frame_trans; eauto.
  - destruct (N.eqb cls 0) eqn:Ecls.
    { destruct (get_or_create v2 u (name_of_string v2 tstr)) as [u0 o0] eqn:Eg.
      pose proof (get_or_create_frame _ _ _ _ _ Eg) as F0. destruct (get_or_create_canon _ _ _ _ _ Hc Eg) as [C0 _].
      destruct (complete u0 o0) eqn:Ec; [intros H; inversion H; subst; exact F0|].
      destruct (rec (update u0 o0 (set_kind "Alias")) None under) as [[u2 nu]|] eqn:E1; [|discriminate].
      intros H. eapply frame_trans; [exact F0|].
      assert (C1 : canonical v2 (update u0 o0 (set_kind "Alias"))) by (apply update_canon, C0).
      destruct (rec_canon _ _ _ _ _ C1 E1) as [C2 _].
      eapply attach_frame; [| |exact Ec|exact H].
      - apply update_canon, C2.
      - apply frame_update_other; [|exact Ec]. eapply frame_trans; [apply update_frame, Ec|eapply rec_frame; eauto]. }
    destruct (N.eqb cls 1 && v2) eqn:Egen.
    { pose proof (Hok _ _ _ _ _ _ _ Ep Ecls) as Hu. rewrite Egen in Hu. cbv zeta in Hu.
      destruct (match origin with
                | Some og => match plookup og p with Some (_, SNamed _ u'0 m' _ _) => (u'0, m') | _ => (under, ms) end
                | None => (under, ms) end) as [under' ms'] eqn:Eor.
      assert (Hu' : exists ts sh, plookup under' p = Some (ts, sh) /\ composite sh = true).
      { destruct origin as [og|]; [|inversion Eor; subst; exact Hu].
        destruct (plookup og p) as [[ts0 [| | | | | | | | |c0 u0' m0 t0 o0'| |]]|]; inversion Eor; subst; exact Hu. }
      destruct (walk_list rec u (map snd tps)) as [[ut tpn]|] eqn:Et; [|discriminate].
      destruct (walk_list_frame _ _ _ _ Hc Et) as [Ct Ft].
      match goal with |- context [get_or_create v2 ut ?n] => destruct (get_or_create v2 ut n) as [u0 o0] eqn:Eg; set (nmg := n) in * end.
      pose proof (get_or_create_frame _ _ _ _ _ Eg) as F0. destruct (get_or_create_canon _ _ _ _ _ Ct Eg) as [C0 Eo0].
      destruct (complete u0 o0) eqn:Ec; [intros H; inversion H; subst; eapply frame_trans; eauto|].
      destruct (rec u0 (Some nmg) under') as [[u1 o1]|] eqn:E1; [|discriminate].
      destruct (rec_canon _ _ _ _ _ C0 E1) as [C1 K1].
      assert (Eo1 : o1 = o0).
      { destruct Hu' as (ts & sh & Epu & Hcomp). rewrite Eo0. apply K1. unfold node_key. rewrite Epu.
        destruct sh; try discriminate; reflexivity. }
      subst o1. intros H. eapply frame_trans; [exact Ft|]. eapply frame_trans; [exact F0|].
      eapply attach_frame; [| |exact Ec|exact H].
      - apply update_canon, C1.
      - apply frame_update_other; [|exact Ec]. eapply rec_frame; eauto. }
    pose proof (Hok _ _ _ _ _ _ _ Ep Ecls) as Hu. rewrite Egen in Hu. cbv zeta in Hu.
    destruct (get_or_create v2 u (name_of_string v2 tstr)) as [u0 o0] eqn:Eg.
    pose proof (get_or_create_frame _ _ _ _ _ Eg) as F0. destruct (get_or_create_canon _ _ _ _ _ Hc Eg) as [C0 Eo0].
    destruct (complete u0 o0) eqn:Ec; [intros H; inversion H; subst; exact F0|].
    destruct (rec u0 (Some (name_of_string v2 tstr)) under) as [[u1 o1]|] eqn:E1; [|discriminate].
    destruct (rec_canon _ _ _ _ _ C0 E1) as [C1 K1].
    assert (Eo1 : o1 = o0).
    { destruct Hu as (ts & sh & Epu & Hcomp). rewrite Eo0. apply K1. unfold node_key. rewrite Epu.
      destruct sh; try discriminate; reflexivity. }
    subst o1. intros H. eapply frame_trans; [exact F0|].
    eapply attach_frame; [exact C1| |exact Ec|exact H]. eapply rec_frame; eauto.
  - intros H; inversion H; subst. apply frame_refl.
  - destruct (get_or_create v2 u nm) as [u0 o0] eqn:Eg. pose proof (get_or_create_frame _ _ _ _ _ Eg) as F0.
    destruct (complete u0 o0) eqn:Ec; intros H; inversion H; subst; [exact F0|].
    eapply frame_trans; [exact F0|apply update_frame, Ec].
Qed.
End Frame.

(* walkType never touches an entry whose kind was decided before the walk began *)
Theorem walk_frame v2 p : named_ok v2 p -> forall fuel u use t u' o, canonical v2 u ->
  walk v2 p fuel u use t = Some (u', o) -> frame u u'.
Proof.
  intros Hok. induction fuel as [|f IH]; intros u use t u' o Hc H; simpl in H; [discriminate|].
  eapply (walk_step_frame v2 p Hok (walk v2 p f)); [|exact Hc|exact H].
  intros u0 use0 t0 u0' o0 C0 H0. split; [eapply walk_canonical; eauto|eapply IH; eauto].
Qed.

(* ---------- loading ---------- *)
Lemma add_obj_frame v2 p fuel w o w' : named_ok v2 p -> canonical v2 (w_u w) ->
  add_obj v2 p fuel (Some w) o = Some w' -> frame (w_u w) (w_u w').
Proof.
  intros Hok Hc. unfold add_obj. destruct o as [t|ostr sg|ostr ty|ostr ty v].
  all: match goal with |- match walk ?vv ?pp ?ff ?a ?b ?c with _ => _ end = _ -> _ =>
         let E := fresh "E" in destruct (walk vv pp ff a b c) as [[u1 n1]|] eqn:E; [|discriminate];
         intros H; inversion H; subst; rewrite ?upd_pkg_u; simpl; eapply walk_frame; eauto end.
Qed.
Lemma add_objs_frame v2 p fuel : named_ok v2 p -> forall l w w', canonical v2 (w_u w) ->
  fold_left (add_obj v2 p fuel) l (Some w) = Some w' -> frame (w_u w) (w_u w').
Proof.
  intros Hok. induction l as [|o l IH]; intros w w' H0 H; cbn [fold_left] in H.
  - inversion H; subst. apply frame_refl.
  - destruct (add_obj v2 p fuel (Some w) o) as [w1|] eqn:E1; [|rewrite add_obj_none in H; discriminate].
    eapply frame_trans; [eapply add_obj_frame; eauto|]. eapply IH; [|exact H]. eapply add_obj_canon; eauto.
Qed.
Lemma add_package_frame v2 p fuel w g w' : named_ok v2 p -> canonical v2 (w_u w) ->
  add_package v2 p fuel (Some w) g = Some w' -> frame (w_u w) (w_u w').
Proof.
  intros Hok H0. unfold add_package.
  match goal with |- match fold_left _ _ (Some ?w1) with _ => _ end = _ -> _ =>
    destruct (fold_left (add_obj v2 p fuel) (g_scope g) (Some w1)) as [w2|] eqn:E; [|discriminate] end.
  intros H; inversion H; subst. rewrite upd_pkg_u, fold_get_pkg_u.
  eapply add_objs_frame in E; [|exact Hok|rewrite upd_pkg_u; exact H0]. rewrite upd_pkg_u in E. exact E.
Qed.
(* whatever is loaded later, in whatever grouping: an entry whose kind is decided keeps every field *)
Theorem load_frame v2 p fuel : named_ok v2 p -> forall gs w w', canonical v2 (w_u w) ->
  fold_left (add_package v2 p fuel) gs (Some w) = Some w' -> frame (w_u w) (w_u w').
Proof.
  intros Hok. induction gs as [|g gs IH]; intros w w' H0 H; cbn [fold_left] in H.
  - inversion H; subst. apply frame_refl.
  - destruct (add_package v2 p fuel (Some w) g) as [w1|] eqn:E1; [|rewrite add_package_none in H; discriminate].
    eapply frame_trans; [eapply add_package_frame; eauto|]. eapply IH; [|exact H]. eapply add_package_canon; eauto.
Qed.
