(* C16 proofs: the copy semantics of deepcopy-gen's output on typed value trees. *)
Require Import Gengo.Base.Str Gengo.Base.Sexp Gengo.Model.DeepCopy.

(* ---------- induction on values that reaches through the lists ---------- *)
Section ValInd.
Variable P : val -> Prop.
Hypothesis Hs : forall n, P (VS n).
Hypothesis Hnil : P VNil.
Hypothesis Href : forall k id kvs, Forall (fun kv => P (snd kv)) kvs -> P (VRef k id kvs).
Hypothesis Hrec : forall fs, Forall P fs -> P (VRec fs).
Fixpoint val_ind' (v : val) : P v :=
  match v with
  | VS n => Hs n
  | VNil => Hnil
  | VRef k id kvs => Href k id kvs ((fix go (l : list (N * val)) : Forall (fun kv => P (snd kv)) l :=
                                       match l with [] => Forall_nil _ | kv :: l' => Forall_cons kv (val_ind' (snd kv)) (go l') end) kvs)
  | VRec fs => Hrec fs ((fix go (l : list val) : Forall P l :=
                           match l with [] => Forall_nil _ | x :: l' => Forall_cons x (val_ind' x) (go l') end) fs)
  end.
End ValInd.

(* ---------- the list functions of the model, named ---------- *)
Fixpoint fresh_kvs (n : N) (l : list (N * val)) : N * list (N * val) :=
  match l with
  | [] => (n, [])
  | (key, x) :: l' => let '(n1, x') := fresh n x in let '(n2, r) := fresh_kvs n1 l' in (n2, (key, x') :: r)
  end.
Fixpoint fresh_list (n : N) (l : list val) : N * list val :=
  match l with
  | [] => (n, [])
  | x :: l' => let '(n1, x') := fresh n x in let '(n2, r) := fresh_list n1 l' in (n2, x' :: r)
  end.
Lemma fresh_ref k id kvs n : fresh n (VRef k id kvs) = let '(n1, kvs') := fresh_kvs (N.succ n) kvs in (n1, VRef k n kvs').
Proof. reflexivity. Qed.
Lemma fresh_rec fs n : fresh n (VRec fs) = let '(n1, fs') := fresh_list n fs in (n1, VRec fs').
Proof. reflexivity. Qed.

Section WithDecls.
Variable D : decls.
Notation res := (resolve D (length D)).

Fixpoint cp_kvs (e : dty) (n : N) (l : list (N * val)) : N * list (N * val) * N :=
  match l with
  | [] => (n, [], 0%N)
  | (key, x) :: l' => let '(n1, x', c1) := cp D e n x in
                      let '(n2, r, c2) := cp_kvs e n1 l' in (n2, (key, x') :: r, (c1 + c2)%N)
  end.
Fixpoint cp_fields (vs : list val) (fs : list dty) (n : N) : N * list val * N :=
  match vs, fs with
  | x :: vs', ft :: fs' => let '(n1, x', c1) := cp D ft n x in
                           let '(n2, r, c2) := cp_fields vs' fs' n1 in (n2, x' :: r, (c1 + c2)%N)
  | _, _ => (n, vs, 0%N)
  end.

(* cp, equation by equation *)
Lemma cp_scalar t n v : res t = RScalar -> cp D t n v = (n, v, 0%N).
Proof. intros H. destruct v; simpl; rewrite H; reflexivity. Qed.
Lemma cp_array t e n v : res t = RArray e -> cp D t n v = (n, v, 0%N).
Proof. intros H. destruct v; simpl; rewrite H; reflexivity. Qed.
Lemma cp_hand t fs n v : res t = RStruct true fs -> cp D t n v = (let '(n1, v') := fresh n v in (n1, v', 1%N)).
Proof. intros H. destruct v; simpl; rewrite H; reflexivity. Qed.
Lemma cp_struct t fs n vs : res t = RStruct false fs ->
  cp D t n (VRec vs) = if assignable_t D t then (n, VRec vs, 0%N)
                       else let '(n1, vs', c) := cp_fields vs fs n in (n1, VRec vs', c).
Proof.
  assert (G : forall l fl m, (fix go (vs : list val) (fs : list dty) (n : N) {struct vs} : N * list val * N :=
                              match vs, fs with
                              | x :: vs', ft :: fs' => let '(n1, x', c1) := cp D ft n x in
                                                       let '(n2, r, c2) := go vs' fs' n1 in (n2, x' :: r, (c1 + c2)%N)
                              | _, _ => (n, vs, 0%N)
                              end) l fl m = cp_fields l fl m).
  { induction l as [|x l IH]; intros fs0 m; [destruct fs0; reflexivity|]. destruct fs0 as [|ft fs0]; [reflexivity|].
    simpl. destruct (cp D ft m x) as [[n1 x'] c1]. rewrite IH. reflexivity. }
  intros H. simpl. rewrite H. rewrite G. reflexivity.
Qed.
Lemma cp_ref t e k id kvs n : (res t = RPtr e \/ res t = RSlice e \/ res t = RMap e) ->
  cp D t n (VRef k id kvs) = let '(n1, kvs', c) := cp_kvs e (N.succ n) kvs in (n1, VRef k n kvs', c).
Proof.
  assert (G : forall l m, (fix go (n : N) (l : list (N * val)) {struct l} : N * list (N * val) * N :=
                             match l with
                             | [] => (n, [], 0%N)
                             | (key, x) :: l' => let '(n1, x', c1) := cp D e n x in
                                                 let '(n2, r, c2) := go n1 l' in (n2, (key, x') :: r, (c1 + c2)%N)
                             end) m l = cp_kvs e m l).
  { induction l as [|[key x] l IH]; intros m; [reflexivity|]. simpl. destruct (cp D e m x) as [[n1 x'] c1]. rewrite IH. reflexivity. }
  intros [H|[H|H]]; simpl; rewrite H; rewrite G; reflexivity.
Qed.
Lemma cp_iface t n k id kvs : res t = RIface -> cp D t n (VRef k id kvs) = (let '(n1, v') := fresh n (VRef k id kvs) in (n1, v', 0%N)).
Proof. intros H. simpl. rewrite H. reflexivity. Qed.
Lemma cp_nil t n : fst (cp D t n VNil) = (n, VNil).
Proof. simpl. destruct (res t) as [| | | | |[|] ?| |]; reflexivity. Qed.

(* ================= T1: the copy is deeply equal (ids erased), nil vs empty included ================= *)
Lemma fresh_erase : forall v n, erase (snd (fresh n v)) = erase v.
Proof.
  induction v using val_ind'; intros n0; try reflexivity.
  - rewrite fresh_ref. destruct (fresh_kvs (N.succ n0) kvs) as [n1 kvs'] eqn:E. cbn [snd erase]. f_equal.
    revert n1 kvs' E. generalize (N.succ n0). induction H as [|[key x] l Hx Hl IH]; intros m n1 kvs' E; simpl in E.
    + inversion E; reflexivity.
    + destruct (fresh m x) as [m1 x'] eqn:E1. destruct (fresh_kvs m1 l) as [m2 r] eqn:E2. inversion E; subst.
      cbn [map fst snd]. f_equal; [f_equal; specialize (Hx m); cbn [snd] in Hx; rewrite E1 in Hx; exact Hx | eapply IH; eauto].
  - rewrite fresh_rec. destruct (fresh_list n0 fs) as [n1 fs'] eqn:E. cbn [snd erase]. f_equal.
    revert n0 n1 fs' E. induction H as [|x l Hx Hl IH]; intros m n1 fs' E; simpl in E.
    + inversion E; reflexivity.
    + destruct (fresh m x) as [m1 x'] eqn:E1. destruct (fresh_list m1 l) as [m2 r] eqn:E2. inversion E; subst.
      cbn [map]. f_equal; [specialize (Hx m); rewrite E1 in Hx; exact Hx | eapply IH; eauto].
Qed.

Theorem cp_erase : forall v t n, erase (snd (fst (cp D t n v))) = erase v.
Proof.
  induction v using val_ind'; intros t n0.
  - destruct (res t) as [| | | | |[|] ?| |] eqn:R; simpl; rewrite R; reflexivity.
  - rewrite cp_nil. reflexivity.
  - destruct (res t) as [|e|e|e|e|[|] fs| |] eqn:R.
    + rewrite cp_scalar by auto. reflexivity.
    + rewrite (cp_ref t e) by auto. destruct (cp_kvs e (N.succ n0) kvs) as [[n1 kvs'] c] eqn:E. cbn [fst snd erase]. f_equal.
      revert n1 kvs' c E. generalize (N.succ n0). induction H as [|[key x] l Hx Hl IH]; intros m n1 kvs' c E; simpl in E.
      * inversion E; reflexivity.
      * destruct (cp D e m x) as [[m1 x'] c1] eqn:E1. destruct (cp_kvs e m1 l) as [[m2 r] c2] eqn:E2. inversion E; subst.
        cbn [map fst snd]. f_equal; [f_equal; specialize (Hx e m); cbn [snd] in Hx; rewrite E1 in Hx; exact Hx | eapply IH; eauto].
    + rewrite (cp_ref t e) by auto. destruct (cp_kvs e (N.succ n0) kvs) as [[n1 kvs'] c] eqn:E. cbn [fst snd erase]. f_equal.
      revert n1 kvs' c E. generalize (N.succ n0). induction H as [|[key x] l Hx Hl IH]; intros m n1 kvs' c E; simpl in E.
      * inversion E; reflexivity.
      * destruct (cp D e m x) as [[m1 x'] c1] eqn:E1. destruct (cp_kvs e m1 l) as [[m2 r] c2] eqn:E2. inversion E; subst.
        cbn [map fst snd]. f_equal; [f_equal; specialize (Hx e m); cbn [snd] in Hx; rewrite E1 in Hx; exact Hx | eapply IH; eauto].
    + rewrite (cp_ref t e) by auto. destruct (cp_kvs e (N.succ n0) kvs) as [[n1 kvs'] c] eqn:E. cbn [fst snd erase]. f_equal.
      revert n1 kvs' c E. generalize (N.succ n0). induction H as [|[key x] l Hx Hl IH]; intros m n1 kvs' c E; simpl in E.
      * inversion E; reflexivity.
      * destruct (cp D e m x) as [[m1 x'] c1] eqn:E1. destruct (cp_kvs e m1 l) as [[m2 r] c2] eqn:E2. inversion E; subst.
        cbn [map fst snd]. f_equal; [f_equal; specialize (Hx e m); cbn [snd] in Hx; rewrite E1 in Hx; exact Hx | eapply IH; eauto].
    + rewrite (cp_array t e) by auto. reflexivity.
    + rewrite (cp_hand t fs) by auto. pose proof (fresh_erase (VRef k id kvs) n0) as Hf.
      destruct (fresh n0 (VRef k id kvs)) as [n1 v']. exact Hf.
    + simpl. rewrite R. reflexivity.
    + rewrite cp_iface by auto. pose proof (fresh_erase (VRef k id kvs) n0) as Hf.
      destruct (fresh n0 (VRef k id kvs)) as [n1 v']. exact Hf.
    + simpl. rewrite R. reflexivity.
  - destruct (res t) as [|e|e|e|e|[|] fs0| |] eqn:R; try (simpl; rewrite R; reflexivity).
    + rewrite (cp_hand t fs0) by auto. pose proof (fresh_erase (VRec fs) n0) as Hf.
      destruct (fresh n0 (VRec fs)) as [n1 v']. exact Hf.
    + rewrite (cp_struct t fs0) by auto. destruct (assignable_t D t); [reflexivity|].
      destruct (cp_fields fs fs0 n0) as [[n1 vs'] c] eqn:E. cbn [fst snd erase]. f_equal.
      clear R. revert fs0 n0 n1 vs' c E. induction H as [|x l Hx Hl IH]; intros fs0 m n1 vs' c E; simpl in E.
      * inversion E; reflexivity.
      * destruct fs0 as [|ft fs0']; [inversion E; reflexivity|].
        destruct (cp D ft m x) as [[m1 x'] c1] eqn:E1. destruct (cp_fields l fs0' m1) as [[m2 r] c2] eqn:E2. inversion E; subst.
        cbn [map]. f_equal; [specialize (Hx ft m); rewrite E1 in Hx; exact Hx | eapply IH; eauto].
Qed.
End WithDecls.

(* ================= typing ================= *)
Section Typed.
Variable D : decls.
Notation res := (resolve D (length D)).

(* v is a value of static type t *)
Fixpoint has_type (v : val) (t : dty) {struct v} : Prop :=
  match res t, v with
  | RScalar, VS _ => True
  | RPtr _, VNil | RSlice _, VNil | RMap _, VNil | RIface, VNil => True
  | RPtr e, VRef _ _ kvs | RSlice e, VRef _ _ kvs | RMap e, VRef _ _ kvs =>
      (fix all (l : list (N * val)) : Prop := match l with [] => True | kv :: l' => has_type (snd kv) e /\ all l' end) kvs
  | RIface, VRef _ _ _ => True
  | RArray e, VRec vs => (fix all (l : list val) : Prop := match l with [] => True | x :: l' => has_type x e /\ all l' end) vs
  | RStruct _ fs, VRec vs =>
      (fix all2 (l : list val) (fl : list dty) {struct l} : Prop :=
         match l, fl with
         | [], [] => True
         | x :: l', ft :: fl' => has_type x ft /\ all2 l' fl'
         | _, _ => False end) vs fs
  | _, _ => False
  end.

Fixpoint all_typed (e : dty) (l : list val) : Prop := match l with [] => True | x :: l' => has_type x e /\ all_typed e l' end.
Fixpoint all_typed_kv (e : dty) (l : list (N * val)) : Prop := match l with [] => True | kv :: l' => has_type (snd kv) e /\ all_typed_kv e l' end.
Fixpoint fields_typed (l : list val) (fl : list dty) : Prop :=
  match l, fl with [], [] => True | x :: l', ft :: fl' => has_type x ft /\ fields_typed l' fl' | _, _ => False end.

Lemma ht_ref t e k id kvs : (res t = RPtr e \/ res t = RSlice e \/ res t = RMap e) ->
  has_type (VRef k id kvs) t = all_typed_kv e kvs.
Proof. intros [H|[H|H]]; simpl; rewrite H; induction kvs as [|kv l IH]; simpl; try reflexivity; f_equal; exact IH. Qed.
Lemma ht_array t e vs : res t = RArray e -> has_type (VRec vs) t = all_typed e vs.
Proof. intros H; simpl; rewrite H. induction vs as [|x l IH]; simpl; try reflexivity; f_equal; exact IH. Qed.
Lemma ht_struct t h fs vs : res t = RStruct h fs -> has_type (VRec vs) t = fields_typed vs fs.
Proof.
  intros H; simpl; rewrite H. clear H. revert fs. induction vs as [|x l IH]; intros fs; destruct fs; simpl; try reflexivity.
Qed.

(* ---------- which declarations keep arrays away from references ---------- *)
(* an array type is fine when its elements are assignable (no reference inside); a declaration
   table is fine when every array type written in it is *)
Fixpoint ty_ok (t : dty) : bool :=
  match t with
  | TArray e => assignable_t D e
  | TPtr e | TSlice e | TMap e => ty_ok e
  | _ => true
  end.
Definition decl_ok (d : decl) : bool := match d with DStruct _ fs => forallb ty_ok fs | DDef u => ty_ok u end.
Definition decls_ok : bool := forallb (fun d => decl_ok (snd d)) D.

Lemma dlookup_in id d : forall D0, dlookup id D0 = Some d -> In (id, d) D0.
Proof.
  induction D0 as [|[k d0] D0 IH]; simpl; [discriminate|].
  destruct (N.eqb_spec id k) as [->|Hne]; [intros H; inversion H; auto|auto].
Qed.
Lemma lookup_ok id d : decls_ok = true -> dlookup id D = Some d -> decl_ok d = true.
Proof.
  intros Hok Hl. apply dlookup_in in Hl. unfold decls_ok in Hok. rewrite forallb_forall in Hok. exact (Hok _ Hl).
Qed.

Lemma resolve_ok : decls_ok = true -> forall fuel t, ty_ok t = true ->
  match resolve D fuel t with
  | RPtr e | RSlice e | RMap e => ty_ok e = true
  | RArray e => assignable_t D e = true
  | RStruct _ fs => forallb ty_ok fs = true
  | _ => True
  end.
Proof.
  intros Hok. induction fuel as [|f IH]; intros t Ht; destruct t; simpl in *; auto.
  - destruct (dlookup id D) as [[h fs|u]|] eqn:El; auto. exact (lookup_ok _ _ Hok El).
  - destruct (dlookup id D) as [[h fs|u]|] eqn:El; auto; [exact (lookup_ok _ _ Hok El)|].
    pose proof (lookup_ok _ _ Hok El) as Hu. simpl in Hu. destruct u; auto; apply IH; exact Hu.
Qed.

(* ---------- assignable values hold no storage ---------- *)
Lemma assignable_no_ids : forall fuel v t, has_type v t -> assignable D fuel t = true -> ids v = [].
Proof.
  induction fuel as [|f IH]; intros v t Ht Ha; [discriminate|]. simpl in Ha.
  destruct (res t) as [|e|e|e|e|h fs| |] eqn:R; try discriminate.
  - destruct v; simpl in Ht; rewrite R in Ht; try contradiction. reflexivity.
  - destruct v as [| | |vs]; try (simpl in Ht; rewrite R in Ht; contradiction).
    rewrite (ht_struct t h fs vs R) in Ht. simpl. clear R.
    revert fs Ht Ha. induction vs as [|x l IHl]; intros fs Ht Ha; [reflexivity|].
    destruct fs as [|ft fs]; [contradiction|]. simpl in Ht, Ha. apply andb_true_iff in Ha. destruct Ht as [H1 H2], Ha as [A1 A2].
    simpl. rewrite (IH _ _ H1 A1). simpl. eapply IHl; eauto.
Qed.

(* ================= T2: the copy's storage is all fresh ================= *)
Definition in_range (a b : N) (l : list N) : Prop := Forall (fun i => (a <= i < b)%N) l.
Lemma in_range_weaken a b a' b' l : (a' <= a)%N -> (b <= b')%N -> in_range a b l -> in_range a' b' l.
Proof. intros H1 H2 H. eapply Forall_impl; [|exact H]. simpl. intros i Hi. lia. Qed.
Lemma in_range_app a b l1 l2 : in_range a b l1 -> in_range a b l2 -> in_range a b (l1 ++ l2).
Proof. intros; apply Forall_app; auto. Qed.

Ltac rng H := eapply in_range_weaken; [| |exact H]; lia.

Lemma fresh_range : forall v n, let '(n', v') := fresh n v in (n <= n')%N /\ in_range n n' (ids v').
Proof.
  induction v using val_ind'; intros n0; try (simpl; split; [lia|constructor]).
  - rewrite fresh_ref. destruct (fresh_kvs (N.succ n0) kvs) as [n1 kvs'] eqn:E.
    assert (G : (N.succ n0 <= n1)%N /\ in_range (N.succ n0) n1 (flat_map (fun kv => ids (snd kv)) kvs')).
    { revert n1 kvs' E. generalize (N.succ n0). induction H as [|[key x] l Hx Hl IH]; intros m n1 kvs' E; simpl in E.
      - inversion E; subst. split; [lia|constructor].
      - destruct (fresh m x) as [m1 x'] eqn:E1. destruct (fresh_kvs m1 l) as [m2 r] eqn:E2. inversion E; subst.
        specialize (Hx m). cbn [snd] in Hx. rewrite E1 in Hx. destruct Hx as [L1 R1]. destruct (IH _ _ _ E2) as [L2 R2].
        split; [lia|]. cbn [flat_map snd]. apply in_range_app; [rng R1|rng R2]. }
    destruct G as [G1 G2]. split; [lia|]. cbn [ids]. apply in_range_app.
    + destruct (has_storage k kvs'); [constructor; [lia|constructor]|constructor].
    + rng G2.
  - rewrite fresh_rec. destruct (fresh_list n0 fs) as [n1 fs'] eqn:E. cbn [ids].
    revert n0 n1 fs' E. induction H as [|x l Hx Hl IH]; intros m n1 fs' E; simpl in E.
    + inversion E; subst. split; [lia|constructor].
    + destruct (fresh m x) as [m1 x'] eqn:E1. destruct (fresh_list m1 l) as [m2 r] eqn:E2. inversion E; subst.
      specialize (Hx m). rewrite E1 in Hx. destruct Hx as [L1 R1]. destruct (IH _ _ _ E2) as [L2 R2].
      split; [lia|]. cbn [flat_map]. apply in_range_app; [rng R1|rng R2].
Qed.

Theorem cp_range : decls_ok = true -> forall v t n, ty_ok t = true -> has_type v t ->
  let '(n', v', _) := cp D t n v in (n <= n')%N /\ in_range n n' (ids v').
Proof.
  intros Hok. induction v using val_ind'; intros t n0 Hty Ht.
  - (* scalar value *)
    destruct (res t) as [|e|e|e|e|[|] fs| |] eqn:R; simpl in Ht; rewrite R in Ht; try contradiction.
    rewrite cp_scalar by auto. split; [lia|constructor].
  - pose proof (cp_nil D t n0) as Hn. destruct (cp D t n0 VNil) as [[n1 v1] c]. simpl in Hn. inversion Hn; subst.
    split; [lia|constructor].
  - (* reference node *)
    pose proof (resolve_ok Hok (length D) t Hty) as Hr.
    destruct (res t) as [|e|e|e|e|[|] fs| |] eqn:R; try (simpl in Ht; rewrite R in Ht; contradiction).
    1-3: rewrite (cp_ref D t e) by auto; rewrite (ht_ref t e) in Ht by auto;
         destruct (cp_kvs D e (N.succ n0) kvs) as [[n1 kvs'] c] eqn:E;
         assert (G : (N.succ n0 <= n1)%N /\ in_range (N.succ n0) n1 (flat_map (fun kv => ids (snd kv)) kvs'));
         [ revert n1 kvs' c E Ht; generalize (N.succ n0); induction H as [|[key x] l Hx Hl IH]; intros m n1 kvs' c E Ht; simpl in E;
           [ inversion E; subst; split; [lia|constructor]
           | destruct (cp D e m x) as [[m1 x'] c1] eqn:E1; destruct (cp_kvs D e m1 l) as [[m2 r] c2] eqn:E2; inversion E; subst;
             simpl in Ht; destruct Ht as [T1 T2]; specialize (Hx e m Hr T1); cbn [snd] in Hx; rewrite E1 in Hx; destruct Hx as [L1 R1];
             destruct (IH _ _ _ _ E2 T2) as [L2 R2]; split; [lia|]; cbn [flat_map snd]; apply in_range_app; [rng R1|rng R2] ]
         | destruct G as [G1 G2]; split; [lia|]; cbn [ids]; apply in_range_app;
           [ destruct (has_storage k kvs'); [constructor; [lia|constructor]|constructor]
           | rng G2 ] ].
    + rewrite cp_iface by auto. pose proof (fresh_range (VRef k id kvs) n0) as Hf.
      destruct (fresh n0 (VRef k id kvs)) as [n1 v']. exact Hf.
  - (* struct or array value *)
    pose proof (resolve_ok Hok (length D) t Hty) as Hr.
    destruct (res t) as [|e|e|e|e|[|] fs0| |] eqn:R; try (simpl in Ht; rewrite R in Ht; contradiction).
    + (* array: plain assignment; fine because its elements are assignable *)
      rewrite (cp_array D t e) by auto. rewrite (ht_array t e) in Ht by auto. split; [lia|]. cbn [ids].
      clear H R. induction fs as [|x l IH]; [constructor|]. simpl in Ht. destruct Ht as [T1 T2]. cbn [flat_map].
      unfold assignable_t in Hr. rewrite (assignable_no_ids _ _ _ T1 Hr). apply IH. exact T2.
    + rewrite (cp_hand D t fs0) by auto. pose proof (fresh_range (VRec fs) n0) as Hf.
      destruct (fresh n0 (VRec fs)) as [n1 v']. exact Hf.
    + rewrite (cp_struct D t fs0) by auto. destruct (assignable_t D t) eqn:Ea.
      * split; [lia|]. unfold assignable_t in Ea. rewrite (assignable_no_ids _ _ _ Ht Ea). constructor.
      * rewrite (ht_struct t false fs0) in Ht by auto.
        destruct (cp_fields D fs fs0 n0) as [[n1 vs'] c] eqn:E. cbn [ids]. clear R Ea.
        revert fs0 n0 n1 vs' c E Ht Hr. induction H as [|x l Hx Hl IH]; intros fs0 m n1 vs' c E Ht Hr; simpl in E.
        -- inversion E; subst. split; [lia|constructor].
        -- destruct fs0 as [|ft fs0']; [contradiction|]. simpl in Ht, Hr. apply andb_true_iff in Hr. destruct Ht as [T1 T2], Hr as [O1 O2].
           destruct (cp D ft m x) as [[m1 x'] c1] eqn:E1. destruct (cp_fields D l fs0' m1) as [[m2 r] c2] eqn:E2. inversion E; subst.
           specialize (Hx ft m O1 T1). rewrite E1 in Hx. destruct Hx as [L1 R1]. destruct (IH _ _ _ _ _ E2 T2 O2) as [L2 R2].
           split; [lia|]. cbn [flat_map]. apply in_range_app; [rng R1|rng R2].
Qed.
End Typed.

(* ================= consequences: disjoint storage, independence under mutation ================= *)
Section Consequences.
Variable D : decls.

(* every id of a value is at most its max_id *)
Lemma fold_max_ge {A} (f : A -> N) : forall l m, (m <= fold_left (fun m x => N.max m (f x)) l m)%N.
Proof. induction l as [|x l IH]; intros m; simpl; [lia|]. specialize (IH (N.max m (f x))). lia. Qed.
Lemma fold_max_in {A} (f : A -> N) : forall l m x, In x l -> (f x <= fold_left (fun m x => N.max m (f x)) l m)%N.
Proof.
  induction l as [|y l IH]; intros m x Hin; [destruct Hin|]. simpl. destruct Hin as [->|Hin].
  - pose proof (fold_max_ge f l (N.max m (f x))). lia.
  - apply IH. exact Hin.
Qed.
Lemma ids_le_max : forall v i, In i (ids v) -> (i <= max_id v)%N.
Proof.
  induction v using val_ind'; intros i Hi; simpl in Hi; try contradiction.
  - apply in_app_or in Hi. destruct Hi as [Hi|Hi].
    + destruct (has_storage k kvs); [|destruct Hi]. destruct Hi as [<-|[]]. simpl.
      apply (fold_max_ge (fun kv : N * val => max_id (snd kv))).
    + apply in_flat_map in Hi. destruct Hi as [kv [Hin Hi]]. rewrite Forall_forall in H. specialize (H kv Hin i Hi).
      simpl. pose proof (fold_max_in (fun kv : N * val => max_id (snd kv)) kvs id kv Hin). simpl in *. lia.
  - apply in_flat_map in Hi. destruct Hi as [x [Hin Hi]]. rewrite Forall_forall in H. specialize (H x Hin i Hi).
    simpl. pose proof (fold_max_in max_id fs 0%N x Hin). lia.
Qed.

(* the headline: under the array condition, no storage of the copy is storage of the original *)
Theorem cp_disjoint v t : decls_ok D = true -> ty_ok D t = true -> has_type D v t ->
  let '(_, v', _) := cp D t (N.succ (max_id v)) v in forall i, In i (ids v) -> ~ In i (ids v').
Proof.
  intros Hok Hty Ht. pose proof (cp_range D Hok v t (N.succ (max_id v)) Hty Ht) as H.
  destruct (cp D t (N.succ (max_id v)) v) as [[n' v'] c]. destruct H as [_ H].
  intros i Hi Hi'. apply ids_le_max in Hi. unfold in_range in H. rewrite Forall_forall in H. specialize (H i Hi'). lia.
Qed.

(* what the harness observes: no path of the copy leads to storage numbered below n *)
Lemma shared_none n : forall v p, Forall (fun i => (n <= i)%N) (ids v) -> shared n p v = [].
Proof.
  induction v using val_ind'; intros p Hge; try reflexivity.
  - cbn [shared ids] in *. apply Forall_app in Hge. destruct Hge as [H1 H2].
    assert (E1 : (if has_storage k kvs && N.ltb id n then [rev p] else []) = []).
    { destruct (has_storage k kvs); [|reflexivity]. inversion H1; subst. destruct (N.ltb_spec id n); [lia|reflexivity]. }
    rewrite E1. simpl. clear E1 H1. induction H as [|kv l Hx Hl IH]; [reflexivity|]. cbn [flat_map] in *.
    apply Forall_app in H2. destruct H2 as [A B]. rewrite (Hx _ A). simpl. apply IH. exact B.
  - cbn [shared ids] in *. generalize 0%N. induction H as [|x l Hx Hl IH]; intros j; [reflexivity|]. cbn [flat_map] in *.
    apply Forall_app in Hge. destruct Hge as [A B]. rewrite (Hx _ A). simpl. apply IH. exact B.
Qed.
Theorem cp_shares_nothing v t : decls_ok D = true -> ty_ok D t = true -> has_type D v t ->
  let '(_, v', _) := cp D t (N.succ (max_id v)) v in shared (N.succ (max_id v)) [] v' = [].
Proof.
  intros Hok Hty Ht. pose proof (cp_range D Hok v t (N.succ (max_id v)) Hty Ht) as H.
  destruct (cp D t (N.succ (max_id v)) v) as [[n' v'] c]. destruct H as [_ H].
  apply shared_none. eapply Forall_impl; [|exact H]. simpl. intros i Hi. lia.
Qed.

(* a write through storage i: replace the contents of the node(s) with that id *)
Fixpoint poke (i : N) (f : list (N * val) -> list (N * val)) (v : val) : val :=
  match v with
  | VS _ | VNil => v
  | VRef k id kvs =>
      let kvs' := map (fun kv => (fst kv, poke i f (snd kv))) kvs in
      if has_storage k kvs && N.eqb id i then VRef k id (f kvs') else VRef k id kvs'
  | VRec fs => VRec (map (poke i f) fs)
  end.
Lemma poke_absent i f : forall v, ~ In i (ids v) -> poke i f v = v.
Proof.
  induction v using val_ind'; intros Hn; try reflexivity.
  - cbn [poke ids] in *.
    assert (E : ~ In i (flat_map (fun kv => ids (snd kv)) kvs) -> map (fun kv => (fst kv, poke i f (snd kv))) kvs = kvs).
    { clear Hn. induction H as [|[key x] l Hx Hl IH]; intros Hc; [reflexivity|]. cbn [map fst snd flat_map] in *.
      rewrite Hx, IH; auto; intros Hc'; apply Hc, in_or_app; auto. }
    rewrite E by (intros Hc; apply Hn, in_or_app; auto).
    destruct (has_storage k kvs) eqn:Es; [|reflexivity]. destruct (N.eqb_spec id i) as [->|]; [|reflexivity].
    exfalso. apply Hn. simpl. auto.
  - cbn [poke ids] in *. f_equal. induction H as [|x l Hx Hl IH]; [reflexivity|]. cbn [map flat_map] in *.
    rewrite Hx, IH; auto; intros Hc; apply Hn, in_or_app; auto.
Qed.
(* mutating the copy through any of its storage leaves the original as it was, and vice versa *)
Theorem cp_mutation_independent v t : decls_ok D = true -> ty_ok D t = true -> has_type D v t ->
  let '(_, v', _) := cp D t (N.succ (max_id v)) v in
  (forall i f, In i (ids v') -> poke i f v = v) /\ (forall i f, In i (ids v) -> poke i f v' = v').
Proof.
  intros Hok Hty Ht. pose proof (cp_disjoint v t Hok Hty Ht) as H.
  destruct (cp D t (N.succ (max_id v)) v) as [[n' v'] c]. split; intros i f Hi; apply poke_absent; intros Hc; eapply H; eauto.
Qed.
End Consequences.

(* ================= the array condition is needed: the recorded known finding ================= *)
(* type S struct{ F [1]*int }: the copy's pointer IS the original's pointer *)
Definition bad_decls : decls := [(1%N, DStruct false [TArray (TPtr TScalar)])].
Definition bad_val : val := VRec [VRec [VRef 0 1 [(0%N, VS 7)]]].
Theorem cp_array_of_references_refuted :
  has_type bad_decls bad_val (TNamed 1) /\ decls_ok bad_decls = false /\
  let '(_, v', _) := cp bad_decls (TNamed 1) (N.succ (max_id bad_val)) bad_val in
  In 1%N (ids bad_val) /\ In 1%N (ids v') /\ shared (N.succ (max_id bad_val)) [] v' = [[0; 0]]%N /\
  poke 1 (fun _ => [(0%N, VS 8)]) bad_val <> bad_val.
Proof. vm_compute. repeat split; auto. discriminate. Qed.

(* non-vacuity: a struct with a pointer, a slice of structs, a map and an array of scalars *)
Definition ok_decls : decls :=
  [(1%N, DStruct false [TPtr TScalar; TSlice (TNamed 2); TMap (TSlice TScalar); TArray TScalar]);
   (2%N, DStruct false [TScalar; TPtr (TNamed 2)])].
Definition ok_val : val :=
  VRec [VRef 0 1 [(0%N, VS 5)];
        VRef 1 2 [(0%N, VRec [VS 1; VNil]); (1%N, VRec [VS 2; VRef 0 3 [(0%N, VRec [VS 3; VNil])]])];
        VRef 2 4 [(0%N, VRef 1 5 [(0%N, VS 9)]); (1%N, VNil); (2%N, VRef 1 0 [])];
        VRec [VS 1; VS 2]].
Example ok_example : decls_ok ok_decls = true /\ ty_ok ok_decls (TNamed 1) = true /\ has_type ok_decls ok_val (TNamed 1) /\
  let '(_, v', c) := cp ok_decls (TNamed 1) (N.succ (max_id ok_val)) ok_val in
  erase v' = erase ok_val /\ ids v' = [6; 7; 8; 9; 10]%N /\ c = 0%N.
Proof. vm_compute. repeat split; auto. Qed.

(* ================= the hand-written functions of a type nested by value in an assignable struct are
   bypassed when that struct sits in a slot: the second recorded known finding ================= *)
(* 1 = Nested{ W Wrap; P *int }, 2 = Wrap{ A HandA; N int }, 3 = HandA{ N int } hand-written *)
Definition bypass_decls : decls :=
  [(1%N, DStruct false [TNamed 2; TPtr TScalar]); (2%N, DStruct false [TNamed 3; TScalar]); (3%N, DStruct true [TScalar])].
Definition bypass_val : val := VRec [VRec [VRec [VS 1]; VS 2]; VNil].
Theorem cp_hand_written_bypassed_refuted :
  has_type bypass_decls bypass_val (TNamed 1) /\
  (* the copy of a Nested value calls no hand-written function although it holds a HandA value ... *)
  snd (cp_top bypass_decls (TNamed 1) 1 bypass_val) = 0%N /\
  (* ... while the copy of the Wrap value itself does call it *)
  snd (cp_top bypass_decls (TNamed 2) 1 (VRec [VRec [VS 1]; VS 2])) = 1%N.
Proof. vm_compute. repeat split; auto. Qed.

(* ---------- DeepCopyInto of a type itself: the theorems for slots carry over ---------- *)
Lemma cp_members_erase D : forall vs fs n, map erase (snd (fst (cp_members D vs fs n))) = map erase vs.
Proof.
  induction vs as [|x vs IH]; intros fs n; [destruct fs; reflexivity|]. destruct fs as [|ft fs]; [reflexivity|].
  cbn [cp_members]. pose proof (cp_erase D x ft n) as Hx. destruct (cp D ft n x) as [[n1 x'] c1].
  pose proof (IH fs n1) as Hr. destruct (cp_members D vs fs n1) as [[n2 r] c2]. simpl in *. rewrite Hx, Hr. reflexivity.
Qed.
Theorem cp_top_erase D v t n : erase (snd (fst (cp_top D t n v))) = erase v.
Proof.
  unfold cp_top. destruct (resolve D (length D) t) as [| | | | |[|] fs| |]; try apply cp_erase.
  destruct v as [| | |vs]; try apply cp_erase.
  pose proof (cp_members_erase D vs fs n) as H. destruct (cp_members D vs fs n) as [[n1 vs'] c]. simpl in *. rewrite H. reflexivity.
Qed.
Ltac rng2 H := eapply in_range_weaken; [| |exact H]; lia.
Lemma cp_members_range D : decls_ok D = true -> forall vs fs n, fields_typed D vs fs -> forallb (ty_ok D) fs = true ->
  let '(n', vs', _) := cp_members D vs fs n in (n <= n')%N /\ in_range n n' (flat_map ids vs').
Proof.
  intros Hok. induction vs as [|x vs IH]; intros fs n Ht Ho.
  - destruct fs; simpl; split; try lia; constructor.
  - destruct fs as [|ft fs]; [destruct Ht|]. simpl in Ht, Ho. apply andb_true_iff in Ho. destruct Ht as [T1 T2], Ho as [O1 O2].
    cbn [cp_members]. pose proof (cp_range D Hok x ft n O1 T1) as Hx. destruct (cp D ft n x) as [[n1 x'] c1].
    pose proof (IH fs n1 T2 O2) as Hr. destruct (cp_members D vs fs n1) as [[n2 r] c2]. destruct Hx as [L1 R1], Hr as [L2 R2].
    split; [lia|]. cbn [flat_map]. apply in_range_app; [rng2 R1|rng2 R2].
Qed.
Theorem cp_top_range D : decls_ok D = true -> forall v t n, ty_ok D t = true -> has_type D v t ->
  let '(n', v', _) := cp_top D t n v in (n <= n')%N /\ in_range n n' (ids v').
Proof.
  intros Hok v t n Hty Ht. unfold cp_top.
  pose proof (resolve_ok D Hok (length D) t Hty) as Hr.
  destruct (resolve D (length D) t) as [| | | | |[|] fs| |] eqn:R; try (apply cp_range; assumption).
  destruct v as [| | |vs]; try (apply cp_range; assumption).
  rewrite (ht_struct D t false fs vs R) in Ht.
  pose proof (cp_members_range D Hok vs fs n Ht Hr) as H. destruct (cp_members D vs fs n) as [[n1 vs'] c]. exact H.
Qed.
Theorem cp_top_disjoint D v t : decls_ok D = true -> ty_ok D t = true -> has_type D v t ->
  let '(_, v', _) := cp_top D t (N.succ (max_id v)) v in forall i, In i (ids v) -> ~ In i (ids v').
Proof.
  intros Hok Hty Ht. pose proof (cp_top_range D Hok v t (N.succ (max_id v)) Hty Ht) as H.
  destruct (cp_top D t (N.succ (max_id v)) v) as [[n' v'] c]. destruct H as [_ H].
  intros i Hi Hi'. apply ids_le_max in Hi. unfold in_range in H. rewrite Forall_forall in H. specialize (H i Hi'). lia.
Qed.
