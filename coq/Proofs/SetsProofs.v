Require Import Gengo.Base.Str Gengo.Base.Sexp Gengo.Base.SortSpec Gengo.Model.Sets.
From Coq Require Import Permutation Sorting.Sorted.

Lemma memE_In x l : memE x l = true <-> In x l.
Proof.
  unfold memE. rewrite existsb_exists. split.
  - intros [y [H1 H2]]. apply N.eqb_eq in H2. subst; auto.
  - intros H. exists x. split; auto. apply N.eqb_refl.
Qed.
Lemma memE_false x l : memE x l = false <-> ~ In x l.
Proof. rewrite <- memE_In. destruct (memE x l); split; congruence. Qed.

(* ---------- membership after each operation = the set-theoretic definition ---------- *)
Theorem has_spec s x : has s x = true <-> In x s.
Proof. apply memE_In. Qed.

Lemma insert1_In s y x : In x (insert1 s y) <-> In x s \/ x = y.
Proof.
  unfold insert1. destruct (memE y s) eqn:E.
  - apply memE_In in E. split; [auto|]. intros [H | ->]; auto.
  - rewrite in_app_iff. simpl. split; intros [H|H]; auto. destruct H; auto; contradiction.
Qed.
Lemma insert1_NoDup s y : NoDup s -> NoDup (insert1 s y).
Proof.
  intros H. unfold insert1. destruct (memE y s) eqn:E; auto.
  apply memE_false in E. apply (Permutation_NoDup (Permutation_cons_append s y)). constructor; auto.
Qed.

Theorem insert_all_In items : forall s x, In x (insert_all s items) <-> In x s \/ In x items.
Proof.
  unfold insert_all. induction items as [|y items IH]; simpl; intros s x; [tauto|].
  rewrite IH, insert1_In. split; intros H; intuition.
Qed.
Theorem insert_all_NoDup items : forall s, NoDup s -> NoDup (insert_all s items).
Proof.
  unfold insert_all. induction items as [|y items IH]; simpl; intros s H; auto. apply IH. apply insert1_NoDup; auto.
Qed.

Theorem delete_all_In s items x : In x (delete_all s items) <-> In x s /\ ~ In x items.
Proof. unfold delete_all. rewrite filter_In. rewrite negb_true_iff, memE_false. tauto. Qed.
Theorem delete_all_NoDup s items : NoDup s -> NoDup (delete_all s items).
Proof. apply NoDup_filter. Qed.

Theorem has_all_spec s items : has_all s items = true <-> forall x, In x items -> In x s.
Proof. unfold has_all. rewrite forallb_forall. split; intros H x Hx; apply has_spec; auto. Qed.
Theorem has_any_spec s items : has_any s items = true <-> exists x, In x items /\ In x s.
Proof.
  unfold has_any. rewrite existsb_exists. split; intros [x [H1 H2]]; exists x; split; auto; apply has_spec; auto.
Qed.

Theorem clone_In s x : In x (clone s) <-> In x s.
Proof. unfold clone. rewrite insert_all_In. simpl. tauto. Qed.
Theorem clone_NoDup s : NoDup (clone s).
Proof. apply insert_all_NoDup. constructor. Qed.

Theorem difference_In a b x : In x (difference a b) <-> In x a /\ ~ In x b.
Proof.
  unfold difference. rewrite insert_all_In. simpl. rewrite filter_In, negb_true_iff.
  unfold has. rewrite memE_false. tauto.
Qed.
Theorem union_In a b x : In x (union a b) <-> In x a \/ In x b.
Proof. unfold union. rewrite insert_all_In, clone_In. tauto. Qed.
Theorem sym_difference_In a b x : In x (sym_difference a b) <-> (In x a /\ ~ In x b) \/ (In x b /\ ~ In x a).
Proof. unfold sym_difference. rewrite union_In, !difference_In. tauto. Qed.
Theorem intersection_In a b x : In x (intersection a b) <-> In x a /\ In x b.
Proof.
  unfold intersection. destruct (Nat.ltb (length a) (length b));
    rewrite insert_all_In; simpl; rewrite filter_In; unfold has; rewrite memE_In; tauto.
Qed.
Theorem results_NoDup a b : NoDup (difference a b) /\ NoDup (union a b) /\ NoDup (sym_difference a b) /\ NoDup (intersection a b).
Proof.
  repeat split.
  - apply insert_all_NoDup. constructor.
  - apply insert_all_NoDup. apply clone_NoDup.
  - apply insert_all_NoDup. apply clone_NoDup.
  - unfold intersection. destruct (Nat.ltb (length a) (length b)); apply insert_all_NoDup; constructor.
Qed.

Theorem is_superset_spec a b : is_superset a b = true <-> incl b a.
Proof. unfold is_superset. rewrite forallb_forall. unfold incl. split; intros H x Hx; apply has_spec; auto. Qed.

(* Equal: same length and superset is set equality, for duplicate-free key lists (maps) *)
Theorem equal_spec a b : NoDup a -> NoDup b ->
  (equal a b = true <-> forall x, In x a <-> In x b).
Proof.
  intros Ha Hb. unfold equal. rewrite andb_true_iff, Nat.eqb_eq, is_superset_spec. split.
  - intros [Hl Hi] x. split; [|apply Hi].
    apply (NoDup_length_incl Hb); [lia|exact Hi].
  - intros H. split.
    + apply Nat.le_antisymm; apply NoDup_incl_length; auto; intros x Hx; apply H; auto.
    + intros x Hx. apply H; auto.
Qed.

(* ---------- List: the unique strictly ascending enumeration ---------- *)
Lemma Nltb_irrefl a : N.ltb a a = false. Proof. apply N.ltb_irrefl. Qed.
Lemma Nltb_trans a b c : N.ltb a b = true -> N.ltb b c = true -> N.ltb a c = true.
Proof. rewrite !N.ltb_lt. lia. Qed.
Lemma Nltb_total a b : N.ltb a b = true \/ a = b \/ N.ltb b a = true.
Proof. rewrite !N.ltb_lt. lia. Qed.

Theorem list_members s x : In x (list_sorted s) <-> In x s.
Proof.
  unfold list_sorted. split; intros H.
  - eapply Permutation_in; [apply Permutation_sym, isort_perm|exact H].
  - eapply Permutation_in; [apply isort_perm|exact H].
Qed.
Theorem list_once s : NoDup s -> NoDup (list_sorted s).
Proof. intros H. eapply Permutation_NoDup; [apply isort_perm|exact H]. Qed.
Theorem list_ascending s : StronglySorted (fun a b => N.ltb b a = false) (list_sorted s).
Proof. apply (isort_strongly_sorted elt N.ltb Nltb_irrefl Nltb_trans Nltb_total). Qed.
(* whatever order the map is ranged over and whatever sort.Sort does within its contract *)
Theorem list_unique s arranged out :
  Permutation s arranged -> Permutation arranged out -> no_inversion elt N.ltb out -> out = list_sorted s.
Proof. apply (sort_contract_is_isort elt N.ltb Nltb_irrefl Nltb_trans Nltb_total). Qed.

(* ---------- operands are left unchanged; results are fresh ---------- *)
Lemma nth_upd_other {T} (l : list T) i j x d : i <> j -> nth j (upd l i x) d = nth j l d.
Proof. revert i j. induction l as [|y l IH]; intros [|i] [|j] H; simpl; auto; try congruence. Qed.
Lemma nth_upd_same {T} (l : list T) i x d : i < length l -> nth i (upd l i x) d = x.
Proof. revert i. induction l as [|y l IH]; intros [|i] H; simpl in *; try lia; auto. apply IH. lia. Qed.

Definition wf (st : store) : Prop := forall v, v < length (vars st) -> nth v (vars st) 0 < length (heap st).

Theorem bind_new_others st d s v : wf st -> v <> d -> v < length (vars st) ->
  get (bind_new st d s) v = get st v.
Proof.
  intros Hwf Hne Hv. unfold get, bind_new. simpl. rewrite nth_upd_other by auto.
  rewrite app_nth1; auto.
Qed.
Theorem bind_new_result st d s : d < length (vars st) -> get (bind_new st d s) d = s.
Proof.
  intros Hd. unfold get, bind_new. simpl. rewrite nth_upd_same by auto.
  rewrite app_nth2, Nat.sub_diag by lia. reflexivity.
Qed.

(* binary operations: every other variable still denotes the same set *)
Theorem binary_ops_leave_operands st d a b v : wf st -> v <> d -> v < length (vars st) ->
  get (fst (step st (OUnion d a b))) v = get st v /\
  get (fst (step st (OInter d a b))) v = get st v /\
  get (fst (step st (ODiff d a b))) v = get st v /\
  get (fst (step st (OSymDiff d a b))) v = get st v /\
  get (fst (step st (OClone d a))) v = get st v.
Proof. intros. simpl. repeat split; apply bind_new_others; auto. Qed.

Theorem queries_change_nothing st o :
  match o with OHas _ _ | OHasAll _ _ | OHasAny _ _ | OSuperset _ _ | OEqual _ _ | OList _ | OLen _ => fst (step st o) = st | _ => True end.
Proof. destruct o; simpl; auto. Qed.

(* PopAny removes exactly the key it returns, which was a member *)
Theorem pop_spec st v x st' : step st (OPopAny v (Some x)) = (st', RPop true) ->
  In x (get st v) /\ forall y, In y (delete_all (get st v) [x]) <-> In y (get st v) /\ y <> x.
Proof.
  simpl. destruct (has (get st v) x) eqn:E; [|discriminate]. intros _. split; [apply has_spec; auto|].
  intros y. rewrite delete_all_In. simpl. intuition congruence.
Qed.
Theorem pop_empty st v : get st v = [] -> snd (step st (OPopAny v None)) = RPop false.
Proof. intros H. simpl. rewrite H. reflexivity. Qed.
