(* Generic runner for the extracted model: one case per input line,
     <entry-name> TAB <input s-expression>
   prints the model's output s-expression (or DECODE-ERROR) per line.
   Atoms are code-point lists written <n n n>; lists are ( ... ). *)
open Model
let rec pos_of_int i = if i = 1 then XH else if i land 1 = 0 then XO (pos_of_int (i lsr 1)) else XI (pos_of_int (i lsr 1))
let n_of_int (i:int) : n = if i = 0 then N0 else Npos (pos_of_int i)
let rec int_of_pos = function XH -> 1 | XO p -> 2 * int_of_pos p | XI p -> 2 * int_of_pos p + 1
let int_of_n = function N0 -> 0 | Npos p -> int_of_pos p
let parse (s:string) : sexp =
  let pos = ref 0 in
  let len = String.length s in
  let rec skip () = if !pos < len && (s.[!pos] = ' ' || s.[!pos] = '\n' || s.[!pos] = '\r') then (incr pos; skip ()) in
  let rec item () =
    skip ();
    if !pos >= len then failwith "unexpected end of input"
    else if s.[!pos] = '(' then begin
      incr pos; let acc = ref [] in
      let rec loop () = skip (); if s.[!pos] = ')' then incr pos else (acc := item () :: !acc; loop ()) in
      loop (); L (List.rev !acc) end
    else if s.[!pos] = '<' then begin
      incr pos; let acc = ref [] in
      let rec loop () = skip ();
        if s.[!pos] = '>' then incr pos
        else begin let st = !pos in while s.[!pos] >= '0' && s.[!pos] <= '9' do incr pos done;
          if !pos = st then failwith ("bad atom at " ^ string_of_int st);
          acc := n_of_int (int_of_string (String.sub s st (!pos - st))) :: !acc; loop () end in
      loop (); A (List.rev !acc) end
    else failwith ("bad sexp at " ^ string_of_int !pos) in
  item ()
let rec print b = function
  | A a -> Buffer.add_char b '<'; List.iteri (fun i c -> if i > 0 then Buffer.add_char b ' '; Buffer.add_string b (string_of_int (int_of_n c))) a; Buffer.add_char b '>'
  | L l -> Buffer.add_char b '('; List.iteri (fun i x -> if i > 0 then Buffer.add_char b ' '; print b x) l; Buffer.add_char b ')'
let name_of_string (s:string) : n list = List.init (String.length s) (fun i -> n_of_int (Char.code s.[i]))
let () =
  try while true do
    let line = input_line stdin in
    let b = Buffer.create 256 in
    (match String.index_opt line '\t' with
     | None -> Buffer.add_string b "BAD-LINE"
     | Some i ->
       let name = String.sub line 0 i in
       let rest = String.sub line (i+1) (String.length line - i - 1) in
       (try
         (match dispatch (name_of_string name) (parse rest) with
          | Some o -> print b o
          | None -> Buffer.add_string b "DECODE-ERROR")
        with Failure m -> Buffer.add_string b ("PARSE-ERROR " ^ m)
           | Stack_overflow -> Buffer.add_string b "STACK-OVERFLOW"));
    print_endline (Buffer.contents b)
  done with End_of_file -> ()
