
func c09Fails2(mk func() *File) (bool, string) {
	var first []byte
	for k := 0; k < 40; k++ {
		o, err := c09Once(mk())
		if err != nil {
			return true, err.Error()
		}
		again, _ := importsWrapper(o)
		if !bytes.Equal(again, o) {
			return true, "notfixed:\n" + string(o) + "----\n" + string(again)
		}
		if k == 0 {
			first = o
		} else if !bytes.Equal(first, o) {
			return true, "differs:\n" + string(o) + "----\n" + string(first)
		}
	}
	return false, ""
}
