"""Per-property configuration for ./check (see DESIGN.md section 8)."""
import os, re

TRUSTED_BASE = [
    "Coq 8.16.1 kernel (coqc); vm_compute used for Examples, _refuted witnesses and the per-run kernel cross-check; native_compute not used",
    "no axioms: every Print Assumptions block in evidence reads 'Closed under the global context' unless listed",
    "extraction: Require Extraction + ExtrOcamlBasic + ExtrOcamlString only (no other Extract Constant/Inductive); N/Z/nat/positive stay inductive; OCaml 4.13.1; ocaml/driver.ml (s-expression reader/printer)",
    "correspondence: Go harness (generators, canonical printers, oracles) built from /repo working tree with -tags verif; this Python driver; Go 1.23.5",
    "modelled, not verified: all Go code; the model is tied to it only through the runs counted in this file",
]


def load_known(root, pid):
    """KNOWN_FINDINGS.txt: lines 'known: property=Cxx sig=<name> <description>' -> {sig: description}"""
    out = {}
    p = os.path.join(root, "KNOWN_FINDINGS.txt")
    if os.path.exists(p):
        for line in open(p, encoding="utf-8"):
            m = re.match(r"known:\s+property=(\w+)\s+sig=(\S+)\s+(.*)", line.strip())
            if m and m.group(1) == pid:
                out[m.group(2)] = m.group(3)
    return out


def has_class(cl):
    return lambda c: cl in c["classes"]


PROPS = {
    "C08": {
        "harness": ["v1", "v2"],
        "functional": ["C08.old", "C08.bool1", "C08.bool2", "C08.fn", "C08.tagstring"],
        "required_classes": ["tagline", "args", "value", "trailing-comment", "soup", "tagnames", "bool-error", "fn-error",
                             "exhaustive-args", "marker-comment-or-space", "empty-marker", "v1", "v2"],
        "rule": "grammar-directed comment lines (marker variants incl. empty, multi-rune, containing '//' or ending in space; keys; (arg) forms incl. malformed; values with '='; trailing // comments; ASCII and Unicode whitespace, letters, digits) plus rune soup over the property's alphabet; a case is non-trivial when its input is longer than 12 characters of s-expression; distinct = distinct (entry,input)",
        "exhaustive": ["every argument text of length <= 4 over {a,1,(,),comma,space,e-acute} through ExtractFunctionStyleCommentTags (2801 inputs)",
                       "unicode.IsSpace vs the model's is_space on every code point; IsLetter/IsDigit vs the model's tables on every rune the generators emit"],
        "modelled": "types.ExtractCommentTags, types.ExtractSingleBoolCommentTag (v1); gengo.ExtractCommentTags, ExtractFunctionStyleCommentTags, parseTagKey, parseTagArgs, ExtractSingleBoolCommentTag, Tag.String (v2). strings.* on valid UTF-8 modelled on code points; unicode.IsLetter/IsDigit are parameters of the theorems.",
        "assumptions": ["input strings are valid UTF-8 (byte-level and rune-level prefix/split/trim coincide)"],
    },
}
