from . import has_class

CFG = {
    "harness": ["v1", "v2"],
    "functional": ["C02.raw"],
    "required_classes": ["import-path-with-non-ascii-letters", "single-element-path-equal-to-the-output-leaf", "raw", "with-tracker", "without-tracker", "output-is-program-package", "local-type", "retypecheck", "synthetic", "zero-length-array", "same-illegal-leaf-twice", "nested-struct-after-struct", "numbered-alias-twice", "path-with-tilde-or-plus", "import-lines-asked-midway", "directory-without-letter-or-digit", "leaf-becomes-keyword-after-stripping"],
    "rule": "types taken from the universes of generated programs (parsed by the real loaders), restricted to C02's fragment; for each of 4 rounds per program: an output package (fresh, the last program package, packages named like a version or a keyword), with or without an import tracker, 1-6 types named through ONE raw namer; compared with the model (names and final import lines); oracle: the rendered text is written into a file of the output package together with the tracker's import lines (or base-name imports), parsed and type-checked with go/types against the program, every variable's type must be identical to the original and every import must be needed; non-trivial = input longer than 12 characters",
    "exhaustive": [],
    "modelled": 'rawNamer.Name with DefaultImportTracker (the tracker model of C07); the lexing/parsing of the rendered text back into a type is go/parser + go/types in the oracle, not modelled',
    "assumptions": ["the tracker's local package is the namer's output package", "without a tracker: path bases are distinct legal identifiers"],
    "manifest": {
        "text": 'Coq theorems: rendering is compositional in the tracker (local types unqualified, foreign types qualified with the alias the tracker holds for their package after naming, composites structural), every foreign named type occurring in a rendered type is tracked afterwards, the output package is never tracked (C07 invariant), naming only ever extends the tracker; tied to /repo each run: the real raw namer + tracker vs the extracted model, and the rendered text re-type-checked by go/types to a type identical to the original',
        "note": 'partial: that the rendered text denotes the original type is decided by re-type-checking with go/types on every run (a parser of Go type syntax is not modelled); trusted: Coq kernel, extraction, OCaml driver, Go harness',
    },
}
