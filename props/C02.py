from . import has_class
CFG = {"harness": ["v1", "v2"], "functional": ["C02.raw"],
       "required_classes": ["raw", "with-tracker", "without-tracker", "output-is-program-package", "local-type", "retypecheck"],
       "rule": "wip", "manifest": {"text": "wip", "note": "wip"}}
