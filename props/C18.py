from . import has_class

CFG = {
    "harness": ["v1"],
    "functional": ["C18.verify", "C18.closure", "C18.allimports", "C18.incoming", "C18.history"],
    "required_classes": ["verify", "exhaustive-digraphs", "random-graphs", "ancestor-file", "file-above-stop", "stop-at-src",
                         "stop-at-gomod", "rules-fail", "inverse-fail", "pass", "verdict-repeat", "indirect-importer-chain",
                         "context-from-builder", "asked-again-after-adding-a-package", "context-history"],
    "rule": "scratch directory trees (1-4 levels above the package directory plus a stopping top level; .import-restrictions files in YAML or JSON at random levels; go.mod files and directories named src at random levels, restriction files above the stop) x hand-built universes over 9 packages with random import edges (direct and transitive importers of the package under test); rules and inverse rules over 7+4 selectors (matched by the real regexp engine), 7 allowed/forbidden prefixes; each case is run through generators.Packages + Context.ExecutePackages 5 times; closure on every digraph with <= 3 nodes (thorough: 4); Contexts built by NewContext from real packages (an acyclic import graph of 3-5 packages on disk, requested in a random order, the first one or two through the Builder, the rest through Context.AddDir / AddDirectory), IncomingImports / TransitiveIncomingImports asked in changing patterns before and after every addition, each answer and the whole history of answers compared with the model; non-trivial = input longer than 12 characters",
    "exhaustive": ["TransitiveIncomingImports on all digraphs (self-loops included) with <= 3 nodes (quick: 2+16+512 graphs) / <= 4 nodes (thorough: +65536)"],
    "modelled": "importRuleFile.VerifyFile, verifyRules, verifyInverseRules, recursiveRead/removeLastDir/isGoModRoot (as a walk over directory levels), importRules.Imports/dfsImports (examples/import-boss/generators/import_restrict.go); transitiveClosure (generator/transitive_closure.go); Context.IncomingImports/TransitiveIncomingImports (generator/generator.go). regexp.MatchString enters as data (the match set of each selector over the case's packages); YAML/JSON decoding and os.Stat are exercised, not modelled.",
    "assumptions": ["the package directory lies below a directory that holds go.mod or is named src (recursiveRead's walk above such a directory, up to the filesystem root, is outside the statement)"],
    "manifest": {
        "text": "Coq theorems: the verify loops' verdict equals the first-match rule semantics for every import/importer and every stack of rules (and is independent of the order imports are visited); the in-place Warshall loop computes exactly reachability for all three map iteration orders; outputs sorted and duplicate-free; the directory walk selects exactly the files from the package directory up to the first go.mod/src directory. Tied to /repo each run by driving the real import-boss through generators.Packages + ExecutePackages on scratch trees and hand-built universes and diffing verdict, forbidden and mismatched lists with the extracted model; closure exhaustively on small digraphs",
        "note": "trusted: Coq kernel, extraction, OCaml driver, Go harness (incl. its parser of import-boss's error text); regexp, sigs.k8s.io/yaml and the filesystem are exercised, not modelled",
    },
}
