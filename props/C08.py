from . import has_class

CFG = {
    "harness": ["v1", "v2"],
    "functional": ["C08.old", "C08.bool1", "C08.bool2", "C08.fn", "C08.tagstring"],
    "required_classes": ["tagline", "args", "value", "trailing-comment", "soup", "tagnames", "bool-error", "fn-error",
                         "exhaustive-args", "marker-comment-or-space", "empty-marker", "v1", "v2", "tagnames-empty-not-nil", "bool-one-key-several-times"],
    "rule": "grammar-directed comment lines (marker variants incl. empty, multi-rune, containing '//' or ending in space; keys; (arg) forms incl. malformed; values with '='; trailing // comments; ASCII and Unicode whitespace, letters, digits) plus rune soup over the property's alphabet; a case is non-trivial when its input is longer than 12 characters of s-expression; distinct = distinct (entry,input)",
    "exhaustive": ["every argument text of length <= 4 over {a,1,(,),comma,space,e-acute} through ExtractFunctionStyleCommentTags (2801 inputs)",
                   "unicode.IsSpace vs the model's is_space on every code point; IsLetter/IsDigit vs the model's tables on every rune the generators emit"],
    "modelled": "types.ExtractCommentTags, types.ExtractSingleBoolCommentTag (v1); gengo.ExtractCommentTags, ExtractFunctionStyleCommentTags, parseTagKey, parseTagArgs, ExtractSingleBoolCommentTag, Tag.String (v2). strings.* on valid UTF-8 modelled on code points; unicode.IsLetter/IsDigit are parameters of the theorems.",
    "assumptions": ["input strings are valid UTF-8 (byte-level and rune-level prefix/split/trim coincide)"],
    "manifest": {
        "text": "Coq theorems over an executable Gallina transcription of the tag extractors (old form, function-style form, argument grammar, boolean helpers), for all markers and all line lists, no bound on sizes; the transcription is tied to the current /repo on every run by a differential check (real v1 and v2 Go functions vs the extracted model on grammar-directed, soup and exhaustive small inputs) and a vm_compute cross-check of the extraction",
        "note": "trusted: Coq kernel, extraction (ExtrOcamlBasic/ExtrOcamlString), OCaml driver, Go harness and its unicode-table validation; strings are modelled on code points (valid UTF-8 assumed); unicode.IsLetter/IsDigit are theorem parameters, instantiated by a table the harness re-validates; all Go code is modelled, not verified",
    },
}
