from . import has_class

CFG = {
    "harness": ["v1", "v2"],
    "functional": ["C01.universe"],
    "required_classes": ["universe"],
    "rule": "generated multi-package programs",
    "manifest": {"text": "wip", "note": "wip"},
}
