from . import has_class
CFG = {"harness": ["v1", "v2"], "functional": ["C05.comments", "C05.pkgcomments"],
       "required_classes": ["layout", "doc", "detached", "trailing", "block-comment", "struct-fields", "method", "grouped", "interface-methods", "adjacent-declarations", "doc.go"],
       "rule": "wip", "manifest": {"text": "wip", "note": "wip"}}
