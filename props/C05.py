from . import has_class

CFG = {
    "harness": ["v1", "v2"],
    "functional": ["C05.comments", "C05.pkgcomments"],
    "required_classes": ["layout", "doc", "detached", "trailing", "block-comment", "struct-fields", "method", "grouped", "interface-methods", "adjacent-declarations", "doc.go", "file-named-like-doc.go", "no-doc.go", "dependency-first-then-requested", "requested-twice-into-one-universe", "trailing-block-ends-on-next-line", "doc-of-directives-only", "dependency-in-universe-before-it-is-requested", "alias-declaration-with-doc", "file-with-generated-code-header", "other-package-with-equally-named-file"],
    "rule": 'gofmt-formatted source layouts from a layout grammar: single and grouped type/const/var declarations, functions, methods, struct fields, interface methods, adjacent declarations without blank lines, // and /* */ doc blocks (one or several lines), detached blocks one blank line above, trailing comments (line and block style, block comments also ending on the following line, after braces and parentheses and on the package clause), 1-2 files plus doc.go; every fourth package is first loaded as a dependency, every fourth is requested a second time into the universe that already holds it; comment groups (start line, end line, trailing flag from the source text, Text() lines) and declaration lines come from an independent go/parser pass; real loaders: v1 from a scratch GOPATH, v2 from a module; observable = CommentLines and SecondClosestCommentLines of every declaration, field and method, Package.Comments/DocComments; non-trivial = input longer than 12 characters',
    "exhaustive": [],
    "modelled": 'the endLineToCommentGroup index (later group wins, trailing groups left out), priorCommentLines, docComment/priorDetachedComment, addCommentsToType, member and method comments, the doc.go special case. Comment grouping, positions and CommentGroup.Text() are go/parser / go/ast behaviour taken as input.',
    "assumptions": ["sources are gofmt-formatted (the property's quantifier)"],
    "manifest": {
        "text": "Coq theorems: a declaration is delivered exactly the non-trailing comment group that ends on the line above it (none if there is none), its second-closest block is the non-trailing group ending two lines above the doc block (or above the declaration), for every layout whose non-trailing groups end on distinct lines; a trailing group is never delivered; doc.go's groups are the package comments in file order. Tied to /repo each run: layouts from a layout grammar loaded by the real v1 and v2 loaders and compared with the extracted model fed by an independent go/parser pass",
        "note": 'partial: comment grouping and Text() normalisation are go/parser / go/ast behaviour taken as input; trusted: Coq kernel, extraction, OCaml driver, Go harness',
    },
}
