"""Per-property configuration for ./check (see DESIGN.md section 8)."""
import os, re

TRUSTED_BASE = [
    "Coq 8.16.1 kernel (coqc); vm_compute used for Examples, _refuted witnesses and the per-run kernel cross-check; native_compute not used",
    "no axioms: every Print Assumptions block in evidence reads 'Closed under the global context' unless listed",
    "extraction: Require Extraction + ExtrOcamlBasic + ExtrOcamlString only (no other Extract Constant/Inductive); N/Z/nat/positive stay inductive; OCaml 4.13.1; ocaml/driver.ml (s-expression reader/printer)",
    "correspondence: Go harness (generators, canonical printers, oracles) built from /repo working tree with -tags verif; this Python driver; Go 1.23.5",
    "modelled, not verified: all Go code; the model is tied to it only through the runs counted in this file",
]


def load_known(root, pid):
    """KNOWN_FINDINGS.txt: lines 'known: property=Cxx sig=<name> <description>' -> {sig: description}"""
    out = {}
    p = os.path.join(root, "KNOWN_FINDINGS.txt")
    if os.path.exists(p):
        for line in open(p, encoding="utf-8"):
            m = re.match(r"known:\s+property=(\w+)\s+sig=(\S+)\s+(.*)", line.strip())
            if m and m.group(1) == pid:
                out[m.group(2)] = m.group(3)
    return out


def has_class(cl):
    return lambda c: cl in c["classes"]



import importlib, pkgutil
PROPS = {}
for _m in pkgutil.iter_modules(__path__):
    if re.fullmatch(r"C\d+", _m.name):
        PROPS[_m.name] = importlib.import_module(__name__ + "." + _m.name).CFG
