from . import has_class

CFG = {
    "harness": ["v2"],
    "functional": ["C19.string"],
    "pcheck": ["C19.lookup"],
    "oracle_models": ["C19.get", "C19.jsonrule"],
    "required_classes": ["omit", "dash-name", "options", "escapes", "json-invalid-name", "malformed", "no-json-key", "other-keys",
                         "duplicate-key", "exhaustive-options", "roundtrip", "roundtrip-omit", "roundtrip-dash-name", "jsonrule", "get",
                         "string-of-record"],
    "rule": "struct tag strings built from a name alphabet (empty, '-', punctuation, non-ASCII letters/digits, names encoding/json rejects, names needing escapes), 0-3 option words incl. near-misses (omitemptyx, xinline, 'inline ', OMITEMPTY), other keys before/after, duplicates, malformed forms, missing json key; non-trivial = input longer than 12 characters; distinct = distinct (entry,input)",
    "exhaustive": ["all option lists of length <= 3 over {omitempty, inline, omitemptyx, xinline, '', string} x names {'', n, -} through LookupJSON (777 tags)"],
    "modelled": "tags.LookupJSON, parse, options.Contains, JSON.String (v2/parser/tags/json.go). Oracle models (checked against the real library each run, a mismatch there is reported as a broken check, not a violation): reflect.StructTag.Lookup (values with backslash escapes: UNMODELLED, skipped and counted), encoding/json field naming (json_rule) against reflect.StructOf + json.Marshal.",
    "assumptions": ["tag strings are valid UTF-8", "round-trip clause: names without quote, backslash or newline (the rendered tag is placed between quotes unescaped)"],
    "manifest": {
        "text": "Coq theorems: for every field name and tag value LookupJSON's result (transcribed model) satisfies the decidable C19 check (inline iff the word is an option; omit/omitempty/name equal encoding/json's rule whenever encoding/json accepts the name); options.Contains is word membership; String/LookupJSON round trip for all results not combining a name with inline. Tied to /repo on every run: real LookupJSON and JSON.String vs the extracted model, the same P_check evaluated on the implementation's outputs, the round trip executed on the real code, and the two library models (StructTag.Get, encoding/json naming) diffed against reflect and real json.Marshal",
        "note": "trusted: Coq kernel, extraction, OCaml driver, Go harness; reflect.StructTag.Get and encoding/json are modelled by small Gallina functions validated against the real libraries on each run (escapes in tag values are outside the model and counted as skipped); Go code modelled, not verified",
    },
}
