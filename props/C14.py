from . import has_class

CFG = {
    "harness": ["v1", "v2"],
    "functional": ["C14.names", "C14.plural", "C14.private"],
    "required_classes": ["type-named-like-an-ignore-word", "plural-one-letter-exception", "names", "kind-named", "kind-builtin", "kind-map", "kind-slice", "kind-array", "kind-pointer", "kind-chan",
                         "kind-struct", "kind-interface", "kind-func", "affix", "digit-affix", "prepend", "negative-prepend", "private",
                         "fresh-namers", "plural-exhaustive", "plural-words", "is-private", "ignore-word-with-punctuation", "kind-other"],
    "rule": "hand-built types.Type graphs (named types over 11 package paths with dots, dashes, underscores, ignored words; builtins; map/slice/array/pointer/chan/struct/interface/func nestings to depth 4), random NameStrategy configurations (prefix/suffix incl. digits and kind-word prefixes, public/private, ignore words nil/1/3, prepend -1..5), call sequences over root and subterms in random order with repeats on ONE namer; interface types re-named by 30 fresh namers; plural namers over a word list and all words of length <= 3 (thorough: 4) over {s,x,y,h,e,f,c,b,a}; non-trivial = input longer than 12 characters; distinct = distinct (entry,input)",
    "exhaustive": ["plural rule: all words of length <= 3 (quick) / <= 4 (thorough) over a 9-letter alphabet"],
    "modelled": "NameStrategy.Name, filterDirs, removePrefixAndSuffix, Joiner, IC, IL, IsPrivateGoName, NewPublicNamer/NewPrivateNamer, pluralNamer.Name (namer/ and v2/namer/). The memo (Names map) is shown transparent by theorem, the executable model is memo-free. ASCII names (strings.ToUpper/ToLower on one byte).",
    "assumptions": ["type names, package paths, prefix and suffix are ASCII", "types are immutable while a namer holds them in its memo"],
    "manifest": {
        "text": "Coq theorems over a Gallina transcription of NameStrategy.Name and the plural namer: memo transparency (every call sequence returns the memo-free name), the named-type formula, legal-identifier result, compositionality of anonymous-type names (prefix/suffix exactly once at the outside), the plural decision table; tied to /repo each run by naming hand-built type graphs with the real v1 and v2 namers in random call orders and diffing with the extracted model, plus a fresh-namer determinism assertion",
        "note": "trusted: Coq kernel, extraction, OCaml driver, Go harness; ASCII-only names (the Go code slices bytes); Go code modelled, not verified",
    },
}
