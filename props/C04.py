from . import has_class

CFG = {
    "harness": ["v1", "v2"],
    "functional": ["C04.exec"],
    "required_classes": ["hooks-reorder-the-order-they-were-handed", "exec", "err-no-filetype", "err-conflict", "err-hook", "err-unknown-filetype", "err-assemble", "multi-file",
                         "shared-file", "targets-continue", "silent-generator", "context-without-file-types", "file-name-with-directory", "thirteen-or-more-generators"],
    "rule": "random configurations of 0-3 targets x 0-4 recording generators x 0-4 types: per-target and per-generator filters, namer overrides (nil, overriding a context namer, private names), colliding file names, empty/unknown/conflicting file types, failing file assembly, vars/consts/body/imports contributions, a quarter of the configurations with failing hooks; observable = the exact sequence of hook calls with the Order and the Namers each hook saw, the files handed to the file type, the error class; each configuration is run target by target and once through ExecutePackages/ExecuteTargets; non-trivial = input longer than 12 characters",
    "exhaustive": [],
    "modelled": "Context.ExecutePackages/ExecutePackage/executeBody/filteredBy/addNameSystems (generator/execute.go), ExecuteTargets/ExecuteTarget/executeBody (v2/generator/execute.go). Generators, targets and file types are data (recording implementations in the harness). os.MkdirAll and the real file types are exercised in C09/C10/C13, not here.",
    "assumptions": [],
    "manifest": {
        "text": "Coq model of the execution loops with generators/targets as data; theorems: the hook trace equals the documented protocol for every target and generator (filter on exactly the target-accepted types in canonical order, then namers, vars, consts, init, one GenerateType per type accepted by both filters, finalize, imports), namers returned by a generator are visible to it alone, generators naming one file contribute in generator order with the first header, file-type errors. Tied to /repo each run by driving the real ExecutePackage(s)/ExecuteTarget(s) with recording generators and diffing trace, files and error class with the extracted model",
        "note": "trusted: Coq kernel, extraction, OCaml driver, Go harness (recording Generator/Target/FileType implementations and its error-text classifier); Go code modelled, not verified",
    },
}
