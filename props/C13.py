from . import has_class

CFG = {
    "harness": ["v1", "v2"],
    "functional": ["C13.exec", "C13.tracker", "C13.body", "C13.assemble"],
    "required_classes": ["tracker", "body", "fault-every-write-index", "fault-every-hook", "exec-nofault", "exec-hook-fault", "assemble",
                         "formattable", "unformattable", "uncreatable", "err-hook", "targets-continue", "through-io.WriteString", "assembled-again-over-its-own-output", "through-a-tracker-of-the-hook's-own", "error-through-a-merged-snippet-writer", "snippet-writer-over-failing-destination"],
    "rule": "fault enumeration: (1) ErrorTracker over a writer that fails at write index k with a partial write, every k for 0-5 writes and partial sizes 0/1/all; (1b) a SnippetWriter directly over such a writer, every failing call for 1-4 snippets (oracle C13.snippet-write!: Error() is the first failure, nothing is written after it); (2) executeBody (hook ExecuteBody) with a failing hook at every position and a failing writer at every write index for 0-3 types; (3) every fallible hook of every generator of random small configurations, one at a time, through the real ExecutePackage(s)/ExecuteTarget(s); (4) the real Go file type on disk with uncreatable paths and unformattable content; non-trivial = input longer than 12 characters",
    "exhaustive": ["every write index x partial size for 0-5 writes (ErrorTracker)", "every hook position x every write index for 0-3 types (executeBody)",
                   "every fallible hook of every generator of each generated configuration"],
    "modelled": "ErrorTracker.Write/Error, executeBody, the error paths of ExecutePackage/ExecuteTarget and ExecutePackages/ExecuteTargets, DefaultFileType.AssembleFile's control flow (generator/, v2/generator/). The formatter result and os.Create's outcome are inputs of the model (computed by the real importsWrapper / observed).",
    "assumptions": ["generators write through the io.Writer they are given and ignore its result (the documented use)"],
    "manifest": {
        "text": "Coq theorems: for an ARBITRARY underlying writer, after the first failing write every later write through the ErrorTracker returns (0, that error) without reaching the writer and Error() is that error; executeBody returns the first hook error, else the tracker's error; a failing hook yields an error and no file of that target is handed to a file type; every assembly failure is in the returned error while all files are attempted; targets after a failing one still run. Tied to /repo each run by fault enumeration on the real code (every write index, every hook of every generator, uncreatable and unformattable files on disk) diffed with the extracted model",
        "note": "trusted: Coq kernel, extraction, OCaml driver, Go harness incl. its faulty writer; os.Create failure modes and the formatter are exercised, not modelled; hook ExecuteBody (build tag verif) exposes executeBody with a caller-supplied writer",
    },
}
