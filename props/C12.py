from . import has_class

CFG = {
    "harness": ["v1", "v2"],
    "functional": ["C12.visible"],
    "required_classes": ["visibility", "tags-0", "tags-1", "tags-3", "some-file-visible", "some-file-excluded", "regen-deepcopy-gen", "regen-execute", "recursive-input", "dependency-first-then-requested", "regen-separate-output-wildcard"],
    "rule": "packages of 2-5 files carrying //go:build lines, legacy // +build lines or both over the tags {a, b, g} (tag, negation, conjunction, disjunction, negated conjunction), each file declaring a type with a doc comment, a method on a shared type and an import of its own; loaded by the real v1 (AddBuildTags) and v2 (Options.BuildTags) loaders under 7 tag sets; observable = which types, methods, comments and imports are in the universe; in-place regeneration with the real deepcopy-gen (v1, in process through args.GeneratorArgs.Execute on a scratch GOPATH) and with a gengo.Execute-based tool using GoBoilerplate/StdBuildTag (v2), run 3 times with the previous output absent, present and stale: same universe, same bytes; non-trivial = input longer than 12 characters",
    "exhaustive": [],
    "modelled": "build-constraint evaluation and the tree/tool abstraction (an arbitrary generator writing one file with a !tag constraint). go/build's and go list's file selection, the loaders and the generators themselves are exercised, not modelled here (C01, C16).",
    "assumptions": ["a pre-existing file with the output's name carries the tool's negative constraint (it is the tool's own earlier output)"],
    "manifest": {
        "text": "Coq theorems: files whose constraint is false under the tool's tags contribute nothing; the emitted header is false with the tag and true without it; for EVERY generator function, running the in-place tool again (1, 2, n times; previous output absent, present or stale) sees the same universe and yields the same tree. Tied to /repo each run: the real v1/v2 loaders under 7 tag sets vs the extracted constraint evaluator, and the real deepcopy-gen / a gengo.Execute tool regenerated three times with byte and universe comparison",
        "note": "partial: file selection is go/build / go list behaviour, exercised not modelled beyond constraint evaluation; trusted: Coq kernel, extraction, OCaml driver, Go harness",
    },
}
