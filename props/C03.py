from . import has_class

CFG = {
    "harness": ["v1", "v2"],
    "pcheck": ["C03.order", "C03.ordertypes"],
    "required_classes": ["entry-filed-under-two-names", "universe", "name-ties", "namer-raw", "namer-public0", "namer-public1", "namer-private0", "namer-public5",
                         "repeat-runs", "order-types", "newcontext", "parsed-universe", "newcontext-unknown-order-name", "one-name-in-several-tables", "earlier-result-kept", "package-path-differs-from-its-key"],
    "rule": "hand-built universes (1-5 packages incl. the anonymous package, types/functions/variables/constants, the same type name in several packages so that public/private namers with 0 prepended packages collide, raw namer with equal leaves); every universe is ordered 20 (quick) / 60 (thorough) times by fresh Orderers in one process (Go re-randomises map iteration on every range); non-trivial = input longer than 12 characters; distinct = distinct (entry,input)",
    "exhaustive": [],
    "modelled": "Orderer.OrderUniverse, Orderer.OrderTypes, tList.Less (namer/order.go, v2/namer/order.go). sort.Sort is modelled by its contract (a permutation without adjacent inversions); map iteration by arbitrary permutations of packages and tables; the namer is an arbitrary function (its names are data of the entries).",
    "assumptions": ["entries of one universe have pairwise distinct (package, name, kind) (true of parsed universes: Go scopes and map keys)"],
    "manifest": {
        "text": "Coq theorems: tList.Less (name, then package, name, kind) is a strict total order on entries, so ANY result satisfying sort.Sort's contract on ANY gathering order of the universe's maps is one fixed list (order_deterministic), which contains every entry exactly once and is non-decreasing in the namer's names; a _refuted lemma shows this fails for the name-only comparison. Tied to /repo each run: the real OrderUniverse/OrderTypes (v1, v2) on universes with colliding names, repeated with re-randomised map iteration, compared with the extracted model's unique order; P_check (sorted + complete) on the implementation's output",
        "note": "trusted: Coq kernel, extraction, OCaml driver, Go harness; sort.Sort enters by contract only; Go's per-range map randomisation is relied on to exhibit order dependence in the repeated runs",
    },
}
