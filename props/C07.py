from . import has_class

CFG = {
    "harness": ["v1", "v2"],
    "pcheck": ["C07.run"],
    "functional": ["C07.ops"],
    "required_classes": ["more-than-nine-packages-with-one-name", "path-ending-in-init", "package-less-name-with-named-output-package", "exhaustive", "random", "keyword-leaf", "digit-leaf", "punct-only-leaf", "nonident-char", "local-added",
                         "local-leaf-shared", "shared-leaf", "numbered-vs-local-leaf", "tracker-options", "name-with-path", "name-with-path-again", "invalid-type", "non-ascii-paths"],
    "nontrivial": lambda c: c["input"].count("<") > 3,
    "rule": "add-sequences over a path alphabet built to collide (keyword leaves, paths differing only in . - _, shared leaves at several depths, joined suffixes that coincide (a/b vs ab), digit-leading and punctuation-only elements, '~' and '+', the output package itself and packages sharing its leaf); after every AddSymbol the harness dumps LocalNameOf of every path of the case, PathOf of every alias and ImportLines; non-trivial = at least two adds; distinct = distinct (entry,input)",
    "exhaustive": ["all add-sequences of length <= 3 over a 12-path alphabet x output packages {'', local/out}, v1 and v2 (2 x 2 x 1884 sequences)"],
    "modelled_general_ops": "AddSymbol with types.Name.Path set, AddType with IsInvalidType (namer/import_tracker.go, v2/namer/import_tracker.go): Model/Tracker.v add_op, invariant Inv2 over every operation sequence",
    "modelled": "DefaultImportTracker.AddSymbol/LocalNameOf/PathOf/ImportLines (namer/import_tracker.go, v2/namer/import_tracker.go), golangTrackerLocalName / goTrackerLocalName incl. importName and the numbered fallback (generator/import_tracker.go, v2/generator/import_tracker.go). sort.Strings is modelled by insertion sort (sorted permutations of distinct keys are unique). token.Lookup(..).IsKeyword by the keyword table. unicode.IsLetter/IsDigit, strconv.Itoa: theorem parameters constrained by their contracts.",
    "assumptions": ["types.Name.Path is empty (the tracker keys on Package)", "the output package is empty or a valid import path (filepath.Base = last element)"],
    "manifest": {
        "text": "Coq state-machine model of the import tracker (v1 and v2 variants) with an invariant (path<->alias bijection, every alias a legal non-keyword identifier, in v2 different from the output package's leaf, output package untracked) proved for every add-sequence by induction, alias stability, the import-line specification and absence of panics (pigeonhole on the numbered fallback); tied to /repo on every run by replaying add-sequences on the real trackers, diffing the observable trace with the extracted model, and evaluating the decidable C07 check on the implementation's own trace",
        "note": "trusted: Coq kernel, extraction, OCaml driver, Go harness; unicode.IsLetter/IsDigit and strconv.Itoa enter the theorems as parameters with stated contracts (digits are not ASCII lower-case letters or '_'; Itoa injective, non-empty, digits only); sort.Strings modelled by insertion sort; Go code modelled, not verified",
    },
}
