from . import has_class

CFG = {
    "harness": ["v1", "v2"],
    "functional": ["C09.assemble", "C09.boilerplate"],
    "required_classes": ["assemble", "imports-0", "imports-2", "gens-1", "gens-3", "no-import-block", "format-checks", "boilerplate"],
    "rule": "files built from 3 header shapes (none, comment, build-tag + license + generated-by), 3 package names, 0-5 import lines out of quoted/aliased/blank/dot forms, var/const lines and bodies (functions, types, comments, unformatted spacing) from 1-3 generators; the real assembleGo(lang)File text is split at the import block and compared with the model (import lines as a sorted list: Go ranges over the Imports map in random order); the formatter-dependent clauses are checked on the real formatter (imports.Process with each module's own options): parses, package clause, header first, declarations in generator order, fixed point, identical bytes over 12 re-assemblies, v2: import set = contributed set; boilerplate functions on scratch header files; non-trivial = input longer than 12 characters",
    "exhaustive": [],
    "modelled": "assembleGolangFile / assembleGoFile (text layout), GoBoilerplate, LoadGoBoilerplate. golang.org/x/tools/imports.Process is NOT modelled: its laws (sorts one import block, idempotent, keeps the header) enter C09_deterministic as an explicit hypothesis and are exercised on every run (entries C09.formatted!).",
    "assumptions": ["import paths are printable ASCII without quotes or backslashes (fmt's %q is then plain quoting)", "header, var/const lines and bodies do not themselves contain the text 'import (' (harness splitting)"],
    "manifest": {
        "text": "Coq theorems: the assembled text is header ++ package clause ++ import block ++ var block ++ const block ++ body for every input; the text outside the import block does not depend on the order imports were contributed, the import lines are a permutation; with the formatter law (result invariant under reordering lines of one import block) the output bytes are the same for all map iteration orders; boilerplate layout (build-tag lines, header with YEAR substituted, generated-by line). Tied to /repo each run: real assemble functions vs the extracted model; parse / fixed-point / reproducibility / exact-imports clauses executed on the real formatter",
        "note": "partial: 'parses', 'is a fixed point of the formatter' and the formatter law itself are properties of golang.org/x/tools/imports, exercised (labelled as tests in the evidence), not proved; trusted: Coq kernel, extraction, OCaml driver, Go harness",
    },
}
