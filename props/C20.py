from . import has_class
CFG = {"harness": ["v1", "v2"], "functional": ["C20.preds"], "required_classes": ["predicates", "predicate-oracle", "positive-assignable", "positive-primitive", "positive-comparable"],
       "rule": "wip", "manifest": {"text": "wip", "note": "wip"}}
