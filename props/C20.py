from . import has_class

CFG = {
    "harness": ["v1", "v2"],
    "functional": ["C20.preds"],
    "required_classes": ["predicates-on-declarations-and-placeholders", "predicates", "predicate-oracle", "positive-assignable", "positive-primitive", "positive-comparable", "any-spelling", "decl-named-like-builtin", "blank-field"],
    "rule": "the programs of C01 without generics; IsPrimitive / IsAssignable / IsAnonymousStruct on every Types entry of every package vs the model's predicates on the model universe; soundness oracle on every go/types type of the program: assignable => no pointer/map/slice/chan/func/interface anywhere inside (walk through named types, struct fields, arrays), primitive <=> basic scalar or defined over one, anonymous-struct <=> struct{} literal, v2 comparable <=> types.Comparable; non-trivial = input longer than 12 characters",
    "exhaustive": [],
    "modelled": 'Type.IsPrimitive/IsAssignable/IsAnonymousStruct over the model universe (fuelled through struct members / alias chains); IsComparable delegates to go/types.Comparable on the stored GoType and is checked, not modelled',
    "assumptions": ["untyped constant types, complex and unsafe.Pointer are outside the fragment (gengo reports them as Unsupported by design)"],
    "manifest": {
        "text": "Coq theorems: IsAssignable is sound on the model universe (an assignable entry is a builtin, an alias of one, or a struct all of whose members are assignable: no Pointer/Map/Slice/Chan/Func/Interface kind is reachable through members), IsPrimitive is exactly 'Builtin or Alias of Builtin', IsAnonymousStruct holds for the struct{} entry and for no named struct; tied to /repo and to Go semantics each run: predicate values of the real code vs the model on every entry, and vs an independent go/types oracle (reference-freedom walk, types.Comparable)",
        "note": "partial: 'the Go type contains no reference' is stated over the model universe's kinds; its link to go/types is the per-run oracle; comparable is checked against types.Comparable only; trusted: Coq kernel, extraction, OCaml driver, Go harness",
    },
}
