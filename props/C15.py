from . import has_class

CFG = {
    "harness": ["v1", "v2"],
    "functional": ["C15.chain", "C15.args"],
    "required_classes": ["chain", "tmpl-valid", "tmpl-namer-call", "tmpl-parse-error", "tmpl-exec-error", "op-append", "op-merge", "op-dup",
                         "writer-error", "namers-0", "namers-3", "delim-$", "delim-{{", "delim-@", "delim-<<", "first-error-kept",
                         "args-with", "args-withargs", "args-clash", "args-unchanged", "tmpl-defines-template", "tmpl-uses-undefined-template", "args-empty-receiver", "args-mutation-independent", "one-delimiter-empty", "tmpl-missing-key", "tmpl-nil-data"],
    "rule": "chains of 1-8 (thorough: 1-20) Do/Append/Merge/Dup calls (v1: Do) over 17 templates (valid, a reference to a key the data map lacks, namer pipelines, range/if, parse errors incl. an unknown function, execution errors after partial output), 4 delimiter pairs, 0-3 naming systems, 1-3 destination writers that fail at a random write index with partial writes; for every Do the oracle text/template is run directly with the same delimiters, functions (one per naming system) and data, its Write calls recorded; after every call the bytes each writer received and every snippet writer's Error() are dumped; Args.With/WithArgs on random maps with clashes; non-trivial = input longer than 12 characters",
    "exhaustive": [],
    "modelled": "SnippetWriter.Do/Error/Dup/Append/Merge, NewSnippetWriter's function map, Args.With/WithArgs (generator/snippet_writer.go, v2/generator/snippet_writer.go). text/template is an input of the model: parse failure, the sequence of Write calls, execution failure, all recorded from the real engine on every run.",
    "assumptions": ["io.Copy from a bytes.Buffer issues one Write of the whole content (none when empty)"],
    "manifest": {
        "text": "Coq state-machine model of snippet writers over failing writers with the template engine as recorded input; theorems: a Do on an error-free writer performs exactly the engine's writes and records its error; after the first template or write error no later Do/Append/Merge writes a byte and Error() is unchanged; Dup carries the error, Merge adopts the other's error and then writes nothing; Args.With/WithArgs build a new map (v2: added value wins, v1: receiver wins). Tied to /repo each run: the real SnippetWriter against text/template invoked directly (same delimiters, one function per naming system, same data), chains diffed with the extracted model after every call",
        "note": "trusted: Coq kernel, extraction, OCaml driver, Go harness; text/template's behaviour is recorded, not modelled",
    },
}
