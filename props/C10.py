from . import has_class

CFG = {
    "harness": ["v1"],
    "functional": ["C10.step"],
    "required_classes": ["step", "mode-verify", "mode-generate", "perturb-flip-first", "perturb-flip-middle", "perturb-flip-last", "perturb-truncate",
                         "perturb-extend", "perturb-delete", "perturb-delete-dir", "perturb-extra-file", "dir-missing", "unformattable-file",
                         "verify-ok", "verify-fails", "verify-readonly", "verify-only-through-args", "perturb-longer", "generate-over-longer-file",
                         "verify-only-preset-no-flag-parsing", "verify-only-preset-with-flag-parsing", "verify-only-flag", "long-file-of-a-type-with-identity-formatter", "text-file-without-final-newline"],
    "rule": "histories of 2-5 generate/verify runs of one target (1-3 generators, 1-2 files of valid or unformattable Go) through the real ExecutePackage with the real golang file type on a scratch directory, with perturbations of the on-disk copy before verifies and before regenerations (flip the first/middle/last byte, truncate, extend, append a long stale tail, delete a file, delete the directory, add an unrelated file); every step is one case: (mode, filesystem before, what the run wants to write) -> (filesystem after, errors by file and kind); plus a read-only assertion over names, sizes, mtimes, hashes and directory existence; non-trivial = input longer than 12 characters",
    "exhaustive": [],
    "modelled": "Context.ExecutePackage with Context.Verify, DefaultFileType.VerifyFile and AssembleFile (generator/execute.go); the filesystem is a map name -> bytes plus 'directory exists'. What a run wants to write (formatted bytes per file, or 'unformattable') is an input, taken from an independent generation into a reference directory.",
    "assumptions": ["os.* calls behave as the map abstraction says (exercised, not modelled)"],
    "manifest": {
        "text": "Coq theorems over the filesystem-as-map model: a verify run succeeds iff every file it would write exists with byte-identical content, its errors name exactly the missing and the differing files, any edit of an expected file is reported, the filesystem is unchanged by a verify run, and generate-then-verify succeeds for every history. Tied to /repo each run by generate/verify/perturb histories through the real ExecutePackage on disk, each step diffed with the extracted model, plus a read-only assertion on names, sizes, mtimes and hashes",
        "note": "partial: the OS calls are exercised, not modelled beyond the map abstraction; trusted: Coq kernel, extraction, OCaml driver, Go harness incl. its classifier of gengo's error texts",
    },
}
