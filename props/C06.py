from . import has_class

CFG = {
    "harness": ["v1", "v2"],
    "functional": ["C06.universe", "C06.lookups", "C06.prelookups", "C06.wellformed"],
    "required_classes": ["second-universe-from-one-parser", "alias-of-unnamed-composite", "universe", "lookup-sequences", "identity-closure", "defined-array-of-composite", "lookups-before-load", "path-starts-like-anonymous-type", "composite-map-key"],
    "rule": "the programs of C01 without generics; per program: (A) every object reachable from the universe's tables is the canonical map entry of its own name (shared builtin singletons under any of their keys), (B) none is an unresolved placeholder, (C) all go/types types that resolve (through the real tcNameToName/goNameToName hook) to one object are types.Identical, (D) 12 random Universe.Type lookups of existing, builtin and unknown names twice each return one object, compared with the model's get-or-create; builtin singletons shared across universes; non-trivial = input longer than 12 characters",
    "exhaustive": [],
    "modelled": "Universe.Type/Package.Type (get-or-create with builtin import), walkType's completeness short-circuits; pointer identity is object-name identity in the model (heap keyed by each object's own name, key map for the builtin aliases)",
    "assumptions": ["non-generic declarations (C06's fragment)"],
    "manifest": {
        "text": "Coq theorems on the universe model: get-or-create is idempotent and never remaps an existing key (lookup stability), every walk and every lookup extends the universe monotonically (keys keep their objects, completed entries stay completed), builtin keys resolve to the reserved singleton names, uint8 and byte share one object while int8 does not; closure/no-placeholder and no-merge are decided on the real graphs each run (pointer-level assertions over every reachable object against go/types' Identical)",
        "note": "partial: closure of the walk and 'identically spelled types are one object' are checked on the implementation's pointer graph on every generated program, the model theorems cover lookup stability and monotone extension; trusted: Coq kernel, extraction, OCaml driver, Go harness, hook TcNameToName/GoNameToName",
    },
}
