from . import has_class
CFG = {"harness": ["v1", "v2"], "functional": ["C06.universe", "C06.lookups"], "required_classes": ["universe", "lookup-sequences", "identity-closure"],
       "rule": "wip", "manifest": {"text": "wip", "note": "wip"}}
