from . import has_class

CFG = {
    "harness": ["v1", "v2"],
    "functional": ["C11.universe", "C11.wellformed"],
    "required_classes": ["importer-first-then-requests-by-relative-directory", "ill-typed-package-in-three-histories", "importer-of-broken-package-requested-twice", "universe", "histories", "split-load", "incremental-load", "dependency-not-requested", "bad-requests", "broken-dependency-requested-later", "lookups-before-load", "half-parsable-package-requested-again"],
    "rule": "generated programs of 3-6 packages with an import DAG; a random non-empty request set; 5 (thorough: 24) histories per program: a random order and partition of the request set, loaded either all before the universe is made or first group -> universe -> incremental additions (v2: LoadPackages*/NewUniverse/LoadPackagesTo on a module; v1: AddDir/FindTypes/AddDirectoryTo on a scratch GOPATH); all universes must be equal and equal to the model's; objects held before an incremental load must be the ones later lookups return and completed entries must not change; reported inputs = sorted request set; requesting a missing directory, a file that does not parse and an empty directory must fail; non-trivial = input longer than 12 characters",
    "exhaustive": [],
    "modelled": "the request bookkeeping (requested vs dependency packages: full scan vs stub + reachable types), through the universe model's build; packages.Load / go/build are exercised, not modelled",
    "assumptions": ["one universe per parser (v2)"],
    "manifest": {
        "text": "Coq theorems: the universe built from a request set is a function of the set of requested packages (the model's build over any two orders of the same requested packages yields equal canonical dumps under the stability lemmas), keys keep their objects and completed entries never change under further loading; tied to /repo each run by loading every generated module under several orders and partitions with the real v1 and v2 loaders, comparing all resulting universes with each other and with the extracted model, checking pointer stability across incremental loads and the error cases",
        "note": "partial: history independence of the REAL loaders is established by the differential histories (every history must produce the model's universe); packages.Load, go/build and the filesystem are exercised, not modelled; trusted: Coq kernel, extraction, OCaml driver, Go harness",
    },
}
