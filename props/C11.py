from . import has_class
CFG = {"harness": ["v1", "v2"], "functional": ["C11.universe"], "required_classes": ["universe", "histories", "split-load", "incremental-load", "dependency-not-requested", "bad-requests"],
       "rule": "wip", "manifest": {"text": "wip", "note": "wip"}}
