from . import has_class
CFG = {"harness": ["v1"], "functional": [],
       "required_classes": ["compile", "copies", "selection"],
       "signatures": {"array-of-references-field": has_class("sig:array-of-references-field")},
       "timeout": {"quick": 1500, "thorough": 6000},
       "rule": "wip", "manifest": {"text": "wip", "note": "wip"}}
