from . import has_class

def _only_hand_complaints(c):
    # the second atom of the input is the list of problems, joined by " ;; "; decode it
    import re
    m = re.match(r"\(<[^>]*> <([^>]*)>", c["input"])
    if not m:
        return False
    text = "".join(chr(int(x)) for x in m.group(1).split())
    probs = [p for p in text.split(" ;; ") if p.strip()]
    return len(probs) > 0 and all(p.startswith("hand-written DeepCopyInto called") for p in probs)


CFG = {
    "harness": ["v1"],
    "functional": ["C16.copy"],
    "required_classes": ["dc-struct-with-interface-field-in-nested-positions", "dc-references-only-in-embedded-members", "dc-dependency-path-ends-with-the-package-path", "model-copy", "model-shares", "compile", "copies", "selection", "dc-pointer", "dc-slice", "dc-map", "dc-array", "dc-array-of-references", "dc-cross-package", "dc-named-interface", "dc-hand-written", "dc-package-tag", "dc-no-package-tag", "dc-type-opt-in", "dc-type-opt-out", "dc-self-pointer", "dc-fixed-shapes", "sig:hand-written-inside-assignable", "dc-type-opt-in-detached", "dc-hand-written-assignable", "several-input-packages-paths-and-names-sort-differently", "dc-value-implementation-of-interface", "regenerated-over-longer-output"],
    "signatures": {"array-of-references-field": has_class("sig:array-of-references-field"),
                   # only when the hand-written-call count is the ONLY complaint about that type
                   "hand-written-inside-assignable": lambda c: "sig:hand-written-inside-assignable" in c["classes"] and c["entry"] == "C16.copies!" and _only_hand_complaints(c)},
    "timeout": {"quick": 1500, "thorough": 6000},
    "rule": 'generated packages (1-3, cross-package references) of exported struct / defined slice / defined map types over builtins, pointers, slices, maps with assignable keys, arrays (as struct fields; every other program also arrays of pointers/slices/maps), nested and recursive structs, named interfaces with DeepCopyObj methods, types with hand-written DeepCopy/DeepCopyInto that count their calls, package-level and type-level opt-in/opt-out tags; the REAL deepcopy-gen is run in process from the current tree, its output compiled with the input and a generated driver (go run), which for 60 (thorough: 300) random values per generated type checks reflect.DeepEqual (incl. nil vs empty), disjointness of all pointer/slice/map storage, mutate-copy-and-compare, hand-written methods called, and that exactly the expected types got DeepCopy functions; non-trivial = input longer than 12 characters',
    "exhaustive": [],
    "modelled": "the copy semantics of the generated code as a function on typed value trees (doStruct/doSlice/doMap/doPointer's decisions: assignment where the static type is assignable, fresh storage + recursive copy otherwise, arrays in struct fields by assignment). That the emitted Go text compiles and has this semantics is exercised (compiled and run), not modelled.",
    "assumptions": ["hand-written DeepCopy/DeepCopyInto methods are correct deep copies (the property's own premise)"],
    "manifest": {
        "text": 'Coq theorems on the copy semantics: for every typed value without an array field of reference-typed elements the copy is equal after erasing locations (deep equality incl. nil vs empty) and shares no location with the original; a _refuted lemma exhibits the sharing for [1]*int (the recorded known finding). Tied to /repo each run: the real deepcopy-gen output is compiled and a reflection oracle checks equality, nil shape, storage disjointness and mutation independence on random values of every generated type, plus tag-driven selection and hand-written methods being called',
        "note": "partial: 'compiles' and the semantics of the emitted text are exercised by compiling and running, the theorem is about the copy semantics the generator's decisions implement; KNOWN FINDING array-of-references-field (see KNOWN_FINDINGS.txt) is suppressed by signature only; trusted: Coq kernel, extraction, OCaml driver, Go harness, the Go toolchain compiling the generated code",
    },
}
