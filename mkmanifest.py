#!/usr/bin/env python3
"""Regenerate MANIFEST.json from props/*.py (claimed properties) and properties.jsonl."""
import json, sys, os
ROOT = os.path.dirname(os.path.abspath(__file__))
sys.path.insert(0, ROOT)
import props as P
allp = [json.loads(l) for l in open(os.path.join(ROOT, "properties.jsonl"))]
NA = {}   # property id -> reason, for properties not claimed
checks = []
for p in allp:
    pid = p["id"]
    if pid not in P.PROPS:
        NA.setdefault(pid, "not yet built in this revision; planned (DESIGN.md section 8)")
        continue
    m = P.PROPS[pid]["manifest"]
    checks.append({
        "property_id": pid,
        "quick_cmd": "./check %s --tier quick" % pid,
        "thorough_cmd": "./check %s --tier thorough" % pid,
        "evidence_file": "/verif/evidence/%s.json" % pid,
        "replay_cmd_template": "./check %s --replay {path}" % pid,
        "engine": "coq-model+correspondence",
        "level_claimed": {"category": "proof", "text": m["text"], "design_ref": "DESIGN.md section 8, " + pid},
        "level_note": m["note"],
        "technique": m.get("technique", "Coq proof over an executable Gallina model + differential correspondence check against the Go code"),
    })
hooks = [l.strip() for l in open(os.path.join(ROOT, "MANIFEST.hooks"))] if os.path.exists(os.path.join(ROOT, "MANIFEST.hooks")) else []
man = {
    "version": 1,
    "setup_cmd": "./setup.sh",
    "hooks": {"guard": "verif",
              "enable": "go build -tags verif (harness modules under /verif/harness use replace k8s.io/gengo => /repo and k8s.io/gengo/v2 => /repo/v2)",
              "baseline_off_cmd": "cd /repo && go test -vet=off -count=1 ./... && cd v2 && go test -vet=off -count=1 ./...",
              "source_commits": [h.split()[0] for h in hooks if h and not h.startswith("#")],
              "add_only": True},
    "engines": [{"name": "coq-model+correspondence", "path": "/verif/check", "serves_properties": sorted(P.PROPS),
                 "kind_free_text": "Coq 8.16.1 development (coq/: Base, Model, Proofs, Properties), model extracted to OCaml (ocaml/), Go differential harnesses (harness/v1, harness/v2) built against /repo with -tags verif, Python driver (check)"}],
    "checks": checks,
    "not_applicable": [{"property_id": k, "reason": v} for k, v in sorted(NA.items())],
    "notes": "Every claimed property: theorems in coq/Properties/<id>.v (statements only, Print Assumptions under each), model in coq/Model, proofs in coq/Proofs; see DESIGN.md.",
}
json.dump(man, open(os.path.join(ROOT, "MANIFEST.json"), "w"), indent=1)
print("claimed:", sorted(P.PROPS))
